(* C12 driver.  One case per line:
     T <ext> <expr>          -> "OK <ty>[ unclean]" | "ERR <name>" (stmt_type_clean)
     C <ext> <ty> <ty>       -> "OK <ty>" | "NONE"                (find_common a b)
     D <ext> <ty> <ty>       -> "<int>"                           (cast_dist a b)
     S <ext> <ty> <ty>       -> "true" | "false"                  (issub a b)
     K <ext> <ty> <ty>       -> "true" | "false"                  (compat param val)
     P <ext> <ty> <ty>       -> "<int>"                           (parent_dist a p)
   <ext>  ::= - | (<scalars> <objtypes> <casts> <callables> <pointers>)   user-schema additions
   all of <ext>, <expr>, <ty> are s-expressions (see harness/props/c12.py). *)

type sx = A of string | L of sx list

let parse_sexps (s : string) : sx list =
  let n = String.length s in
  let pos = ref 0 in
  let rec skip () = if !pos < n && (s.[!pos] = ' ' || s.[!pos] = '\t') then (incr pos; skip ()) in
  let rec one () : sx =
    skip ();
    if !pos >= n then failwith "eof"
    else if s.[!pos] = '(' then begin
      incr pos;
      let items = ref [] in
      let rec loop () =
        skip ();
        if !pos >= n then failwith "unclosed"
        else if s.[!pos] = ')' then incr pos
        else (items := one () :: !items; loop ()) in
      loop ();
      L (List.rev !items)
    end else begin
      let st = !pos in
      while !pos < n && s.[!pos] <> ' ' && s.[!pos] <> '(' && s.[!pos] <> ')' do incr pos done;
      A (String.sub s st (!pos - st))
    end in
  let res = ref [] in
  let rec all () = skip (); if !pos < n then (res := one () :: !res; all ()) in
  all ();
  List.rev !res

let num = function A a -> n_of_int (int_of_string a) | _ -> failwith "num"
let boolean = function A "1" -> true | A "0" -> false | _ -> failwith "bool"

let rec ty_of (x : sx) : ty =
  match x with
  | A "any" -> TAny
  | A "anytuple" -> TAnyTuple
  | A "anyobject" -> TAnyObject
  | L [A "s"; i] -> TS (num i)
  | L [A "arr"; t] -> TArr (ty_of t)
  | L [A "rng"; t] -> TRng (ty_of t)
  | L [A "mrng"; t] -> TMRng (ty_of t)
  | L [A "obj"; i] -> TObj (num i)
  | L (A "union" :: os) -> TUnion (List.map num os)
  | L (A "tup" :: nm :: els) ->
    TTup (boolean nm, List.map (function L [i; t] -> (num i, ty_of t) | _ -> failwith "tup el") els)
  | _ -> failwith "ty"

let rec expr_of (x : sx) : expr =
  match x with
  | A "empty" -> EEmpty
  | L [A "lit"; i] -> ELit (num i)
  | L [A "cast"; t; e] -> ECast (ty_of t, expr_of e)
  | L (A "tuple" :: nm :: els) ->
    ETuple (boolean nm, List.map (function L [i; e] -> (num i, expr_of e) | _ -> failwith "tuple el") els)
  | L (A "array" :: es) -> EArray (List.map expr_of es)
  | L (A "set" :: es) -> ESet (List.map expr_of es)
  | L (A "op" :: o :: es) -> EOp (num o, List.map expr_of es)
  | L [A "call"; f; L args; L kws] ->
    ECall (num f, List.map expr_of args,
           List.map (function L [k; e] -> (num k, expr_of e) | _ -> failwith "kw") kws)
  | L [A "tidx"; e; i] -> ETupIdx (expr_of e, num i)
  | L [A "idx"; e; i] -> EIndex (expr_of e, expr_of i)
  | L [A "objset"; o] -> EObj (num o)
  | L [A "ptr"; e; p] -> EPtr (expr_of e, num p)
  | _ -> failwith "expr"

let tm_of = function A "one" -> TmOne | A "opt" -> TmOpt | A "set" -> TmSet | _ -> failwith "typemod"
let pk_of = function A "pos" -> PkPos | A "var" -> PkVar | A "named" -> PkNamed | _ -> failwith "pkind"

let ext_cache : (string, sig0 * ((n * n) * ty) list) Hashtbl.t = Hashtbl.create 16

let sig_of (raw : string) (x : sx) : sig0 * ((n * n) * ty) list =
  match x with
  | A "-" -> (std_sig, [])
  | L [L scs; L obs; L cs; L fs; L ps] ->
    (match Hashtbl.find_opt ext_cache raw with
     | Some s -> s
     | None ->
       let scs = List.map (function
           | L [i; ab; en; L anc] ->
             { sc_id = num i; sc_abstract = boolean ab; sc_enum = boolean en; sc_anc = List.map num anc }
           | _ -> failwith "scalar") scs in
       let obs = List.map (function
           | L [i; L anc] -> { ob_id = num i; ob_anc = List.map num anc }
           | _ -> failwith "objtype") obs in
       let cs = List.map (function
           | L [f; t; im; asg] ->
             { c_from = ty_of f; c_to = ty_of t; c_implicit = boolean im; c_assign = boolean asg }
           | _ -> failwith "cast") cs in
       let k = ref 100000 in
       let fs = List.map (function
           | L [nm; isop; ab; rc; dv; L ps; rm; rt] ->
             incr k;
             { cl_ov = n_of_int !k; cl_name = num nm; cl_isop = boolean isop; cl_abstract = boolean ab;
               cl_recursive = boolean rc;
               cl_deriv = (match dv with A "-" -> None | d -> Some (num d));
               cl_params = List.map (function
                   | L [pn; pk; pm; pt; pd] ->
                     { p_name = num pn; p_kind = pk_of pk; p_mod = tm_of pm; p_ty = ty_of pt;
                       p_default = boolean pd }
                   | _ -> failwith "param") ps;
               cl_rmod = tm_of rm; cl_ret = ty_of rt }
           | _ -> failwith "callable") fs in
       let ptrs = List.map (function
           | L [o; p; t] -> ((num o, num p), ty_of t)
           | _ -> failwith "ptr") ps in
       let s = (sig_extend std_sig scs obs cs fs, ptrs) in
       Hashtbl.replace ext_cache raw s; s)
  | _ -> failwith "ext"

let rec str_ty (t : ty) : string =
  match t with
  | TS s -> "(s " ^ string_of_int (int_of_n s) ^ ")"
  | TAny -> "any" | TAnyTuple -> "anytuple" | TAnyObject -> "anyobject"
  | TArr e -> "(arr " ^ str_ty e ^ ")"
  | TRng e -> "(rng " ^ str_ty e ^ ")"
  | TMRng e -> "(mrng " ^ str_ty e ^ ")"
  | TObj o -> "(obj " ^ string_of_int (int_of_n o) ^ ")"
  | TUnion os -> "(union " ^ String.concat " " (List.map (fun o -> string_of_int (int_of_n o)) os) ^ ")"
  | TTup (nm, els) ->
    "(tup " ^ (if nm then "1" else "0")
    ^ String.concat "" (List.map (fun (i, e) -> " (" ^ string_of_int (int_of_n i) ^ " " ^ str_ty e ^ ")") els)
    ^ ")"

let str_err = function
  | ENoMatch -> "NoMatch" | EAmbiguous -> "Ambiguous" | ENoFunc -> "NoFunc" | ENotUnique -> "NotUnique"
  | ECastErr -> "Cast" | EGeneric -> "Generic" | EArrayType -> "ArrayType" | EDupName -> "DupName"
  | EIndexErr -> "Index" | ETypeError -> "TypeError" | EInternal -> "Internal" | ENoName -> "NoName"
  | ENestedArr -> "NestedArr"
  | EUnsupported -> "Unsupported"

let rec z_to_int (z : z) : int =
  match z with Z0 -> 0 | Zpos p -> int_of_pos p | Zneg p -> - (int_of_pos p)

let ext_raw (line : string) : string =
  (* the text of the first s-expression after the command letter (cache key) *)
  let n = String.length line in
  let i = ref 2 in
  if !i < n && line.[!i] = '-' then "-"
  else begin
    let depth = ref 0 and st = !i in
    let fin = ref false in
    while not !fin && !i < n do
      if line.[!i] = '(' then incr depth
      else if line.[!i] = ')' then (decr depth; if !depth = 0 then fin := true);
      incr i
    done;
    String.sub line st (!i - st)
  end

let () =
  try
    while true do
      let line = input_line stdin in
      let out =
        try
          let cmd = line.[0] in
          let raw = ext_raw line in
          let rest = String.sub line (2 + String.length raw) (String.length line - 2 - String.length raw) in
          let (sg, ptrs) = (match Hashtbl.find_opt ext_cache raw with
              | Some s -> s
              | None -> sig_of raw (List.hd (parse_sexps raw))) in
          let items = parse_sexps rest in
          (match cmd, items with
           | 'T', [e] ->
             (match stmt_type_clean sg s_int64 ptrs (expr_of e) with
              | Ok (t, clean) -> "OK " ^ str_ty t ^ (if clean then "" else " unclean")
              | Err e -> "ERR " ^ str_err e)
           | 'C', [a; b] ->
             (match find_common sg (ty_of a) (ty_of b) with
              | Some t -> "OK " ^ str_ty t
              | None -> "NONE")
           | 'D', [a; b] -> string_of_int (z_to_int (cast_dist sg (ty_of a) (ty_of b)))
           | 'P', [a; b] -> string_of_int (z_to_int (parent_dist sg (ty_of a) (ty_of b)))
           | 'S', [a; b] -> string_of_bool (issub sg (ty_of a) (ty_of b))
           | 'K', [a; b] -> string_of_bool (compat sg (ty_of a) (ty_of b))
           | 'I', [a; b] -> string_of_bool (impl_castable sg (ty_of a) (ty_of b))
           | _ -> "BAD command")
        with Failure m -> "BAD " ^ m | Not_found -> "BAD notfound" | Invalid_argument m -> "BAD " ^ m in
      print_string out;
      print_newline ()
    done
  with End_of_file -> ()
