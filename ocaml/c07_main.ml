(* C07 driver.  One case per line:
     G <spec> <tree>     -> "<guarded> <guards_valid> <closed> <spec_falsifiable>"   (0/1 each)
     K <pols> <cond>     -> "<cond_ok>"
     R <aqr><auap> <sup|-> <skip> <ign> <tnode>  -> "ign=<0/1> <id>/<skip>=<rw> ..." (sorted)
   spec  = '-' | T<n>:<pols>;T<n>:<pols>...      pols = '' | <+|-><cond>,<+|-><cond>...
   cond  = a<n> | t | f | !(<cond>) | &(<cond>)(<cond>) | |(<cond>)(<cond>)
   tree  = S<n> | R<n> | O<f>(<tree> ...) | U(<tree> ...) | L<n>(<tree>)(<tree>)
         | G(<tree>)(<cond>)(<tree> ...)
   tnode = (<id> <user><abstract><material> [<pol>;<pol>...] <tnode> ...)   pol = <name>.<select>.<base,base>
*)
exception Bad of string
let pos = ref 0
let src = ref ""
let peek () = if !pos < String.length !src then !src.[!pos] else '\000'
let adv () = incr pos
let expect c = if peek () = c then adv () else raise (Bad (Printf.sprintf "expected %c at %d" c !pos))
let skip_ws () = while peek () = ' ' do adv () done
let number () =
  let st = !pos in
  while (match peek () with '0'..'9' -> true | _ -> false) do adv () done;
  if !pos = st then raise (Bad (Printf.sprintf "number expected at %d" st));
  int_of_string (String.sub !src st (!pos - st))
let rec p_cond () =
  match peek () with
  | 'a' -> adv (); CAtom (n_of_int (number ()))
  | 't' -> adv (); CConst true
  | 'f' -> adv (); CConst false
  | '!' -> adv (); expect '('; let c = p_cond () in expect ')'; CNot c
  | '&' -> adv (); expect '('; let a = p_cond () in expect ')'; expect '('; let b = p_cond () in expect ')'; CAnd (a, b)
  | '|' -> adv (); expect '('; let a = p_cond () in expect ')'; expect '('; let b = p_cond () in expect ')'; COr (a, b)
  | _ -> raise (Bad (Printf.sprintf "cond at %d" !pos))
let rec p_tree () =
  match peek () with
  | 'S' -> adv (); Scan (n_of_int (number ()))
  | 'R' -> adv (); Ref (n_of_int (number ()))
  | 'O' -> adv (); let f = number () in expect '('; let ts = p_trees () in expect ')'; Op (n_of_int f, ts)
  | 'U' -> adv (); expect '('; let ts = p_trees () in expect ')'; Union ts
  | 'L' -> adv (); let c = number () in expect '('; let d = p_tree () in expect ')';
           expect '('; let b = p_tree () in expect ')'; Let (n_of_int c, d, b)
  | 'G' -> adv (); expect '('; let b = p_tree () in expect ')'; expect '('; let k = p_cond () in expect ')';
           expect '('; let ts = p_trees () in expect ')'; Guard (b, k, ts)
  | _ -> raise (Bad (Printf.sprintf "tree at %d" !pos))
and p_trees () =
  skip_ws ();
  if peek () = ')' then [] else begin
    let t = p_tree () in
    let r = p_trees () in t :: r
  end
let p_pols () =
  (* until ';' or ' ' or end *)
  let out = ref [] in
  while (match peek () with '+' | '-' -> true | _ -> false) do
    let al = (peek () = '+') in adv ();
    let c = p_cond () in
    out := (al, c) :: !out;
    if peek () = ',' then adv ()
  done;
  List.rev !out
let p_spec () =
  if peek () = '-' then (adv (); []) else begin
    let out = ref [] in
    while peek () = 'T' do
      adv (); let t = number () in expect ':';
      let ps = p_pols () in
      out := (n_of_int t, ps) :: !out;
      if peek () = ';' then adv ()
    done;
    List.rev !out
  end
let p_pol () =
  let nm = number () in expect '.'; let sel = number () in expect '.';
  let bases = ref [] in
  while (match peek () with '0'..'9' -> true | _ -> false) do
    bases := n_of_int (number ()) :: !bases;
    if peek () = ',' then adv ()
  done;
  { p_name = n_of_int nm; p_select = (sel = 1); p_base_subjects = List.rev !bases }
let rec p_tnode () =
  expect '('; let id = number () in skip_ws ();
  let fl c = (adv (); c = '1') in
  let u = fl (peek ()) in let a = fl (peek ()) in let m = fl (peek ()) in
  skip_ws (); expect '[';
  let ps = ref [] in
  while peek () <> ']' do
    ps := p_pol () :: !ps;
    if peek () = ';' then adv ()
  done;
  expect ']';
  let kids = ref [] in
  skip_ws ();
  while peek () = '(' do kids := p_tnode () :: !kids; skip_ws () done;
  expect ')';
  TNode (n_of_int id, u, a, m, List.rev !ps, List.rev !kids)
let b01 b = if b then "1" else "0"
let rw_str = function
  | RwNone -> "N" | RwFilter -> "F" | RwBase -> "B" | RwUnion n -> "U" ^ string_of_int (int_of_n n)
let () =
  try
    while true do
      let line = input_line stdin in
      src := line; pos := 0;
      (try
        (match peek () with
         | 'G' ->
           adv (); skip_ws ();
           let sp = p_spec () in skip_ws ();
           let t = p_tree () in
           print_string (String.concat " " [b01 (guarded sp [] t); b01 (guards_valid sp [] t);
                                            b01 (closed [] t); b01 (spec_falsifiable sp)])
         | 'K' ->
           adv (); skip_ws ();
           let ps = p_pols () in skip_ws ();
           let c = p_cond () in
           print_string (b01 (cond_ok ps c))
         | 'R' ->
           adv (); skip_ws ();
           let aqr = (peek () = '1') in adv ();
           let auap = (peek () = '1') in adv (); skip_ws ();
           let sup = if peek () = '-' then (adv (); []) else begin
               let l = ref [] in
               while (match peek () with '0'..'9' -> true | _ -> false) do
                 l := n_of_int (number ()) :: !l; if peek () = ',' then adv () done;
               List.rev !l end in
           skip_ws ();
           let skip = (peek () = '1') in adv (); skip_ws ();
           let ign = (peek () = '1') in adv (); skip_ws ();
           let n = p_tnode () in
           let o = { o_apply_query_rewrites = aqr; o_apply_user_access_policies = auap } in
           let (m, ig) = new_set o sup n skip ign [] in
           let ents = List.map (fun ((i, s), v) -> (int_of_n i, (if s then 1 else 0), rw_str v)) m in
           let ents = List.sort compare ents in
           print_string ("ign=" ^ b01 ig ^ " pif=" ^ b01 (has_policies_in_force o n skip));
           List.iter (fun (i, s, v) -> print_string (Printf.sprintf " %d/%d=%s" i s v)) ents
         | _ -> print_string "BAD case kind")
      with Bad m -> print_string ("BAD " ^ m)
         | Failure m -> print_string ("BAD " ^ m));
      print_newline ()
    done
  with End_of_file -> ()
