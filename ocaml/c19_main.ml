(* C19 driver.  One JSON case per stdin line:
     {"spec":{"types":[..],"settings":[..]},"ops":[[code,scope,name,V],..],"q":[name,..]}
   -> one canonical result line (same format as harness/impl/c19_impl.py).
   A line starting with '@' prints the fingerprint  case_fp  instead (extraction cross-check). *)

(* ---------- minimal JSON reader (input is ASCII: the harness dumps with ensure_ascii) ---------- *)
type json = JNull | JBool of bool | JNum of String.t | JStr of int list
          | JArr of json list | JObj of (String.t * json) list

let parse_json (s : String.t) : json =
  let n = String.length s in
  let i = ref 0 in
  let peek () = if !i < n then s.[!i] else '\000' in
  let rec ws () = if !i < n && (s.[!i] = ' ' || s.[!i] = '\t' || s.[!i] = '\n' || s.[!i] = '\r') then (incr i; ws ()) in
  let hex4 () =
    let v = int_of_string ("0x" ^ String.sub s !i 4) in i := !i + 4; v in
  let rec str_body acc =
    let c = s.[!i] in
    incr i;
    if c = '"' then List.rev acc
    else if c = '\\' then begin
      let e = s.[!i] in
      incr i;
      match e with
      | 'n' -> str_body (10 :: acc) | 't' -> str_body (9 :: acc) | 'r' -> str_body (13 :: acc)
      | 'b' -> str_body (8 :: acc) | 'f' -> str_body (12 :: acc)
      | 'u' ->
        let h = hex4 () in
        if h >= 0xD800 && h <= 0xDBFF && !i + 1 < n && s.[!i] = '\\' && s.[!i + 1] = 'u' then begin
          let save = !i in
          i := !i + 2;
          let l = hex4 () in
          if l >= 0xDC00 && l <= 0xDFFF then str_body ((0x10000 + ((h - 0xD800) lsl 10) + (l - 0xDC00)) :: acc)
          else (i := save; str_body (h :: acc))
        end else str_body (h :: acc)
      | c -> str_body (Char.code c :: acc)
    end else str_body (Char.code c :: acc) in
  let rec value () =
    ws ();
    match peek () with
    | '{' ->
      incr i; ws ();
      if peek () = '}' then (incr i; JObj [])
      else begin
        let rec members acc =
          ws ();
          if peek () <> '"' then failwith "json: key";
          incr i;
          let k = str_body [] in
          let ks = String.concat "" (List.map (fun c -> String.make 1 (Char.chr (c land 255))) k) in
          ws ();
          if peek () <> ':' then failwith "json: colon";
          incr i;
          let v = value () in
          ws ();
          if peek () = ',' then (incr i; members ((ks, v) :: acc))
          else if peek () = '}' then (incr i; List.rev ((ks, v) :: acc))
          else failwith "json: object" in
        JObj (members [])
      end
    | '[' ->
      incr i; ws ();
      if peek () = ']' then (incr i; JArr [])
      else begin
        let rec elems acc =
          let v = value () in
          ws ();
          if peek () = ',' then (incr i; elems (v :: acc))
          else if peek () = ']' then (incr i; List.rev (v :: acc))
          else failwith "json: array" in
        JArr (elems [])
      end
    | '"' -> incr i; JStr (str_body [])
    | 't' -> i := !i + 4; JBool true
    | 'f' -> i := !i + 5; JBool false
    | 'n' -> i := !i + 4; JNull
    | _ ->
      let st = !i in
      while !i < n && (match s.[!i] with '0' .. '9' | '-' | '+' -> true | _ -> false) do incr i done;
      if !i = st then failwith "json: value";
      JNum (String.sub s st (!i - st)) in
  value ()

(* ---------- conversions ---------- *)
let cstr (l : int list) : n list = List.map n_of_int l
let ostr (s : String.t) : n list = List.init (String.length s) (fun i -> n_of_int (Char.code s.[i]))
let z_of_small (i : int) : z = if i = 0 then Z0 else if i > 0 then Zpos (pos_of_int i) else Zneg (pos_of_int (- i))
let z_of_dec (s : String.t) : z =
  let neg = String.length s > 0 && s.[0] = '-' in
  let ten = z_of_small 10 in
  let acc = ref Z0 in
  String.iter (fun c -> if c >= '0' && c <= '9' then
                  acc := Z.add (Z.mul !acc ten) (z_of_small (Char.code c - 48))) s;
  if neg then Z.opp !acc else !acc
let nat_of_n_list l = l

let get k = function JObj o -> (try List.assoc k o with Not_found -> JNull) | _ -> failwith ("get " ^ k)
let has k = function JObj o -> List.mem_assoc k o | _ -> false
let arr = function JArr l -> l | _ -> failwith "arr"
let jstr = function JStr l -> cstr l | _ -> failwith "jstr"
let jbool = function JBool b -> b | _ -> failwith "jbool"
let jint = function JNum s -> int_of_string s | _ -> failwith "jint"

let rec conv_val (j : json) : val0 =
  match j with
  | JNull -> VNone
  | JBool b -> VBool b
  | JNum s -> VInt (z_of_dec s)
  | JStr l -> VStr (cstr l)
  | JArr l -> VList (List.map conv_val l)
  | JObj [("f", JNum s)] -> VFloat (n_of_int (int_of_string s))
  | JObj [("dur", JNum s)] -> VDur (z_of_dec s)
  | JObj [("mem", JNum s)] -> VMem (z_of_dec s, false)
  | JObj [("memb", JBool b)] -> VMem ((if b then z_of_small 1 else Z0), true)
  | JObj [("enum", JArr [JNum t; JStr x])] -> VEnum (n_of_int (int_of_string t), cstr x)
  | JObj [("fs", JArr l)] -> VList (List.map conv_val l)
  | JObj [("d", JArr l)] ->
    VDict (List.map (function JArr [JStr k; v] -> (cstr k, conv_val v) | _ -> failwith "dict item") l)
  | JObj [("obj", JArr [JStr t; JArr fl])] ->
    VObj (cstr t, List.map (function JArr [JStr k; JBool u; v] -> (cstr k, (u, conv_val v))
                                   | _ -> failwith "obj field") fl)
  | _ -> failwith "conv_val"

let conv_ptype (j : json) : ptype =
  match j with
  | JStr _ ->
    (match String.concat "" (List.map (fun c -> String.make 1 (Char.chr c)) (match j with JStr l -> l | _ -> [])) with
     | "bool" -> TBool | "int" -> TInt | "str" -> TStr | "float" -> TFloat | "dur" -> TDur | "mem" -> TMem
     | x -> failwith ("ptype " ^ x))
  | JArr [JStr _; JNum id; JArr ms] -> TEnum (n_of_int (int_of_string id), List.map jstr ms)
  | _ -> failwith "conv_ptype"

let tag = function JArr (JStr l :: _) -> String.concat "" (List.map (fun c -> String.make 1 (Char.chr c)) l)
                 | _ -> failwith "tag"
let second = function JArr (_ :: x :: _) -> x | _ -> failwith "second"

let conv_ftype (j : json) : ftype =
  match tag j with
  | "p" -> FPrim (conv_ptype (second j))
  | "set" -> FSetOf (conv_ptype (second j))
  | "obj" -> FObj (jstr (second j))
  | x -> failwith ("ftype " ^ x)

let conv_stype (j : json) : stype =
  match tag j with
  | "p" -> SPrim (conv_ptype (second j))
  | "obj" -> SObj (jstr (second j))
  | x -> failwith ("stype " ^ x)

let conv_field (j : json) : field =
  { f_name = jstr (get "n" j); f_type = conv_ftype (get "t" j); f_unique = jbool (get "u" j);
    f_default = (if has "d" j then Some (conv_val (get "d" j)) else None) }

let conv_tspec (j : json) : tspec =
  { t_name = jstr (get "name" j); t_fields = List.map conv_field (arr (get "fields" j));
    t_parent = (match get "parent" j with JNull -> None | p -> Some (jstr p)) }

let conv_setting (j : json) : setting =
  { s_name = jstr (get "n" j); s_type = conv_stype (get "t" j); s_set_of = jbool (get "so" j);
    s_default = conv_val (get "d" j); s_secret = jbool (get "sec" j) }

let conv_spec (j : json) : spec =
  { sp_settings = List.map conv_setting (arr (get "settings" j));
    sp_types = List.map conv_tspec (arr (get "types" j)) }

let conv_op (j : json) : op =
  match j with
  | JArr (JStr c :: JStr sc :: JStr name :: v :: _) ->
    let str l = String.concat "" (List.map (fun c -> String.make 1 (Char.chr c)) l) in
    { o_code = (match str c with "SET" -> OSet | "RESET" -> OReset | "ADD" -> OAdd | "REM" -> ORem
                               | x -> failwith ("opcode " ^ x));
      o_scope = (match str sc with "SESSION" -> Session | "DATABASE" -> Database | "INSTANCE" -> Instance
                                 | x -> failwith ("scope " ^ x));
      o_name = cstr name; o_value = conv_val v }
  | _ -> failwith "conv_op"

(* ---------- canonical printing ---------- *)
let esc (l : n list) : String.t =
  let b = Buffer.create 16 in
  List.iter (fun c ->
      let c = int_of_n c in
      if c >= 32 && c < 127 && c <> 34 && c <> 92 then Buffer.add_char b (Char.chr c)
      else Buffer.add_string b (Printf.sprintf "\\u{%x}" c)) l;
  Buffer.contents b
let dec (z : z) : String.t = String.concat "" (List.map (fun c -> String.make 1 (Char.chr (int_of_n c))) (print_Z z))

let rec pv (v : val0) : String.t =
  match v with
  | VNone -> "N"
  | VBool b -> if b then "T" else "F"
  | VInt z -> "i" ^ dec z
  | VFloat f -> "f" ^ string_of_int (int_of_n f)
  | VStr x -> "\"" ^ esc x ^ "\""
  | VDur z -> "d" ^ dec z
  | VMem (z, b) -> if b then (if z = Z0 then "mF" else "mT") else "m" ^ dec z
  | VEnum (t, x) -> "e" ^ string_of_int (int_of_n t) ^ ":" ^ esc x
  | VList l -> "{" ^ String.concat "," (List.sort compare (List.map pv l)) ^ "}"
  | VDict d -> "D{" ^ String.concat "," (List.sort compare (List.map (fun (k, x) -> "\"" ^ esc k ^ "\":" ^ pv x) d)) ^ "}"
  | VObj (t, fl) ->
    "<" ^ esc t ^ "|" ^ String.concat ","
      (List.sort compare (List.map (fun (k, (u, x)) -> esc k ^ (if u then "*=" else "=") ^ pv x) fl)) ^ ">"

let err_name = function
  | EConfig -> "ConfigurationError" | EConstraint -> "ConstraintViolationError"
  | EInvalidValue -> "InvalidValueError" | EInternal -> "InternalServerError" | EType -> "TypeError"
  | EAttr -> "AttributeError" | EKey -> "KeyError" | EValue -> "ValueError" | EUnmodelled -> "UNMODELLED"

let scope_name = function Session -> "SESSION" | Database -> "DATABASE" | Instance -> "INSTANCE"

let pstorage (m : storage) : String.t =
  "[" ^ String.concat ";"
    (List.sort compare
       (List.map (fun (k, x) -> esc k ^ "=" ^ pv x.v_value ^ "@" ^ esc x.v_source ^ "@" ^ scope_name x.v_scope
                                ^ "@" ^ (if x.v_secret then "1" else "0")) m)) ^ "]"

let pres f = function Ok a -> f a | Err e -> "!" ^ err_name e

let has_unmodelled (o : outcome) =
  List.exists (function Some EUnmodelled -> true | _ -> false) o.out_ops

let print_outcome (o : outcome) : String.t =
  let ops = String.concat "," (List.map (function None -> "ok" | Some e -> err_name e) o.out_ops) in
  if has_unmodelled o then "O:" ^ ops
  else
    "O:" ^ ops
    ^ " S:" ^ pstorage o.out_sys.m_session ^ " D:" ^ pstorage o.out_sys.m_database
    ^ " I:" ^ pstorage o.out_sys.m_instance
    ^ " L:" ^ String.concat ";" (List.map (fun (n, r) -> esc n ^ "=" ^ pres pv r) o.out_eff)
    ^ " J:" ^ String.concat " | " (List.map (pres (fun d -> pv (VDict d))) o.out_json)
    ^ " R:" ^ String.concat " | " (List.map (pres pstorage) o.out_rt)

let () =
  try
    while true do
      let line = input_line stdin in
      let fpmode = String.length line > 0 && line.[0] = '@' in
      let body = if fpmode then String.sub line 1 (String.length line - 1) else line in
      (try
         let j = parse_json body in
         let sp = conv_spec (get "spec" j) in
         let os = List.map conv_op (arr (get "ops" j)) in
         let q = List.map jstr (arr (get "q" j)) in
         if fpmode then print_string (string_of_int (int_of_n (case_fp sp os q)))
         else print_string (print_outcome (run_case sp os q))
       with Failure m -> print_string ("DRIVER-ERROR " ^ m));
      print_newline ()
    done
  with End_of_file -> ()
