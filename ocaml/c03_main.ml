(* C03 driver.  One case per line (same lines as harness/impl/c03_impl.py mode resolve, plus R):
     S;<mod>;<name>;<aliases>;<objs>;<disallow>;<hasmod>                      search            -> D | F mod:name
     T;<mod>;<name>;<aliases>;<cur>;<objs>;<local>;<decl>;<sobjs>;<hasmod>    resolve_name      -> F mod:name
     K;<mod>;<name>;<aliases>                                                 classname         -> E | F mod:name
     R;<base>;<schema>;<aliases>;<hasmod>                                     roundtrip         -> 1 | 0 | cycle
   mod = '-' | c.c.c      aliases = 'N' | k>m,k>m (k '-' = None)     objs = mod:name,mod:name
   schema = mod:name:cls:data:mod/name+mod/name , ...                                                  *)
let nn i = n_of_int i
let parse_mod s = List.map (fun x -> nn (int_of_string x)) (if s = "" then [] else String.split_on_char '.' s)
let parse_omod s = if s = "-" then None else Some (parse_mod s)
let parse_aliases s =
  if s = "N" then None
  else Some (List.map (fun e -> match String.split_on_char '>' e with
      | [k; m] -> (parse_omod k, parse_mod m) | _ -> failwith ("alias " ^ e)) (split_on ',' s))
let parse_q e = match String.split_on_char ':' e with
  | [m; n] -> { q_mod = parse_mod m; q_name = nn (int_of_string n) } | _ -> failwith ("qname " ^ e)
let parse_qs s = List.map parse_q (split_on ',' s)
let parse_comps s = List.map (fun x -> nn (int_of_string x)) (split_on ',' s)
let memq q l = List.exists (fun x -> qname_eqb q x) l
let memc c l = List.mem c l
let show_mod m = String.concat "." (List.map (fun c -> string_of_int (int_of_n c)) m)
let show_q q = show_mod q.q_mod ^ ":" ^ string_of_int (int_of_n q.q_name)
let parse_ref e = match String.split_on_char '/' e with
  | [m; n] -> { q_mod = parse_mod m; q_name = nn (int_of_string n) } | _ -> failwith ("ref " ^ e)
let parse_schema s =
  List.map (fun e -> match String.split_on_char ':' e with
    | [m; n; c; d; r] ->
      ({ q_mod = parse_mod m; q_name = nn (int_of_string n) },
       { o_cls = nn (int_of_string c); o_data = nn (int_of_string d);
         o_refs = List.map parse_ref (split_on '+' r) })
    | _ -> failwith ("schema entry " ^ e)) (split_on ',' s)
let () =
  try
    while true do
      let line = input_line stdin in
      let f = Array.of_list (String.split_on_char ';' line) in
      (try
        (match f.(0) with
         | "S" ->
           let objs = parse_qs f.(4) in
           let dis = parse_comps f.(5) in
           let hm = parse_comps f.(6) in
           let e = { s_exists = (fun q -> memq q objs); s_has_module = (fun c -> memc c hm);
                     s_disallow = (fun c -> memc c dis) } in
           (match search e (parse_aliases f.(3)) (parse_omod f.(1)) (nn (int_of_string f.(2))) with
            | None -> print_string "D"
            | Some q -> print_string ("F " ^ show_q q))
         | "T" ->
           let objs = parse_qs f.(5) in
           let local = List.map parse_mod (split_on ',' f.(6)) in
           let sobjs = parse_qs f.(8) in
           let hm = parse_comps f.(9) in
           let se = { s_exists = (fun q -> memq q sobjs); s_has_module = (fun c -> memc c hm);
                      s_disallow = (fun _ -> false) } in
           let e = { t_objects = (fun q -> memq q objs); t_schema = se;
                     t_local = (fun m -> List.exists (fun x -> mod_eqb m x) local) } in
           let q = resolve_name e (parse_aliases f.(3)) (parse_mod f.(4)) (f.(7) = "1")
                     (parse_omod f.(1)) (nn (int_of_string f.(2))) in
           print_string ("F " ^ show_q q)
         | "K" ->
           let al = match parse_aliases f.(3) with None -> [] | Some a -> a in
           (match classname al (parse_omod f.(1)) (nn (int_of_string f.(2))) with
            | None -> print_string "E"
            | Some q -> print_string ("F " ^ show_q q))
         | "R" ->
           let base = parse_qs f.(1) in
           let s = parse_schema f.(2) in
           let al = match parse_aliases f.(3) with None -> [] | Some a -> a in
           let hm = parse_comps f.(4) in
           (match describe_ddl s with
            | DText _ ->
              print_string (if roundtrip base (fun c -> memc c hm) (fun _ -> false) al s then "1" else "0")
            | DCycle -> print_string "cycle"
            | DBad -> print_string "bad")
         | _ -> print_string "?")
       with Failure m -> print_string ("X " ^ m) | Invalid_argument m -> print_string ("X " ^ m));
      print_newline ()
    done
  with End_of_file -> ()
