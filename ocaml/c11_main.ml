(* C11 driver.  line = <base keys>;key:cls:refs:weak:lctl|key:cls:refs:weak:lctl|...   (comma lists)
   prints  O <order of sdl_order> # <result of sdl_apply>
     order : S k,k,.. | C k | U d k | F          apply : ok k,k,.. | dup k | cycle k | unres d k | apply | fuel *)
let nn i = n_of_int i
let ii x = string_of_int (int_of_n x)
let parse_node e = match String.split_on_char ':' e with
  | [k; c; r; w; l] -> { n_key = nn (int_of_string k); n_cls = nn (int_of_string c); n_data = N0;
                         n_refs = ints_of r; n_weak = ints_of w; n_lctl = ints_of l }
  | _ -> failwith ("node " ^ e)
let () =
  try
    while true do
      let line = input_line stdin in
      (try
        (match String.split_on_char ';' line with
         | [b; ns] ->
           let base = ints_of b in
           let d = List.map parse_node (split_on '|' ns) in
           (match sdl_order base d with
            | Sorted o -> print_string ("S " ^ str_of_ns o)
            | Cycle c -> print_string ("C " ^ ii c)
            | Unresolved (x, k) -> print_string ("U " ^ ii x ^ " " ^ ii k)
            | Fuel -> print_string "F");
           print_string " # ";
           (match sdl_apply base d with
            | SOk s -> print_string ("ok " ^ str_of_ns (dkeys s))
            | SDup k -> print_string ("dup " ^ ii k)
            | SCycle k -> print_string ("cycle " ^ ii k)
            | SUnresolved (x, k) -> print_string ("unres " ^ ii x ^ " " ^ ii k)
            | SApply _ -> print_string "apply"
            | SFuel -> print_string "fuel")
         | _ -> print_string "?")
       with Failure m -> print_string ("X " ^ m));
      print_newline ()
    done
  with End_of_file -> ()
