(* One case per line:
     <nb 0|1>;<prelude fdef,fdef,...>;<request>;<request>...        request = stmt,stmt,...
   expr : L<0-3> | N(<kids>) | I(<kids>) | U(<kids>) | D(<kids>) | C<f>(<kids>)
          kids = sequence of <pos><expr>, pos in p f o s r m  (plain filter order shapeSel shapeFree shapeMut)
   fdef : <id>:<decl>:<expr>          decl in - 0 1 2 3
   stmt : Q<expr> | B | A<expr> | M | Ts Tc Tr Td<n> Tl<n> Tb<n> | S | G<0-3>
        | Fc<fdef> | Fb<id>:<expr> | Fv<id>:<decl> | Fd<id> | H<0-8>:<expr> | O
        | Xs Xp Xd Xc Xa | Xm[<mcmd>+<mcmd>...]     mcmd = q<expr> | o
   special line "@classes": prints class index, branch index and capabilities for every valuation.
   out  : P<mask>                                       (prelude rejected)
        | V<id>=<vol>,..;<req result>;...;W<id>=<vol>,..
          req result = K<caps>.<ndml>,<caps>.<ndml>...|<group>   or   R<mask>                        *)
exception Bad of string
let pos_of = function
  | 'p' -> PPlain | 'f' -> PFilter | 'o' -> POrder | 's' -> PShapeSel | 'r' -> PShapeFree | 'm' -> PShapeMut
  | c -> raise (Bad (Printf.sprintf "pos %c" c))
let vol_of = function
  | '0' -> Immutable | '1' -> Stable | '2' -> Volatile | '3' -> Modifying
  | c -> raise (Bad (Printf.sprintf "vol %c" c))
let parse_num s i =
  let j = ref !i in
  while !j < String.length s && s.[!j] >= '0' && s.[!j] <= '9' do incr j done;
  if !j = !i then raise (Bad ("number expected in " ^ s));
  let v = int_of_string (String.sub s !i (!j - !i)) in
  i := !j; n_of_int v
let rec parse_expr s i =
  if !i >= String.length s then raise (Bad ("expr expected in " ^ s));
  let c = s.[!i] in
  incr i;
  match c with
  | 'L' -> let v = vol_of s.[!i] in incr i; ELeaf v
  | 'N' -> ENode (parse_kids s i)
  | 'I' -> EDml (Ins, parse_kids s i)
  | 'U' -> EDml (Upd, parse_kids s i)
  | 'D' -> EDml (Del, parse_kids s i)
  | 'C' -> let f = parse_num s i in ECall (f, parse_kids s i)
  | c -> raise (Bad (Printf.sprintf "expr tag %c in %s" c s))
and parse_kids s i =
  if !i >= String.length s || s.[!i] <> '(' then raise (Bad ("( expected in " ^ s));
  incr i;
  let rec go () =
    if !i >= String.length s then raise (Bad ("unterminated " ^ s));
    if s.[!i] = ')' then (incr i; XNil)
    else begin
      let p = pos_of s.[!i] in
      incr i;
      let e = parse_expr s i in
      let r = go () in
      XCons (p, e, r)
    end in
  go ()
let expr_of s =
  let i = ref 0 in
  let e = parse_expr s i in
  if !i <> String.length s then raise (Bad ("trailing input in " ^ s));
  e
let decl_of s = if s = "-" then None else Some (vol_of s.[0])
let fdef_of s =
  match String.index_opt s ':' with
  | None -> raise (Bad ("fdef " ^ s))
  | Some a ->
    (match String.index_from_opt s (a + 1) ':' with
     | None -> raise (Bad ("fdef " ^ s))
     | Some b ->
       { f_id = n_of_int (int_of_string (String.sub s 0 a));
         f_decl = decl_of (String.sub s (a + 1) (b - a - 1));
         f_body = expr_of (String.sub s (b + 1) (String.length s - b - 1)) })
let rest s k = String.sub s k (String.length s - k)
let num s = n_of_int (int_of_string s)
let split2 s = match String.index_opt s ':' with
  | None -> raise (Bad ("a:b expected: " ^ s))
  | Some a -> (String.sub s 0 a, rest s (a + 1))
let holder_of = function
  | "0" -> HAlias | "1" -> HGlobal | "2" -> HComputed | "3" -> HPolicy | "4" -> HGlobalDefault
  | "5" -> HIndex | "6" -> HPtrDefault | "7" -> HTrigger | "8" -> HRewrite
  | s -> raise (Bad ("holder " ^ s))
let stmt_of s =
  if s = "" then raise (Bad "empty stmt");
  match s.[0] with
  | 'Q' -> SQuery (expr_of (rest s 1))
  | 'B' -> SDescribe
  | 'A' -> SAnalyze (expr_of (rest s 1))
  | 'M' -> SAdminister
  | 'T' ->
    (match s.[1] with
     | 's' -> STx TxStart | 'c' -> STx TxCommit | 'r' -> STx TxRollback
     | 'd' -> STx (TxDeclare (num (rest s 2))) | 'l' -> STx (TxRelease (num (rest s 2)))
     | 'b' -> STx (TxRollbackTo (num (rest s 2)))
     | _ -> raise (Bad ("tx " ^ s)))
  | 'S' -> SSess
  | 'G' ->
    SConfig (match s.[1] with '0' -> ScSession | '1' -> ScGlobal | '2' -> ScDatabase | '3' -> ScInstance
                            | _ -> raise (Bad ("scope " ^ s)))
  | 'F' ->
    (match s.[1] with
     | 'c' -> SDDL (DCreateFn (fdef_of (rest s 2)))
     | 'b' -> let (a, b) = split2 (rest s 2) in SDDL (DAlterBody (num a, expr_of b))
     | 'v' -> let (a, b) = split2 (rest s 2) in SDDL (DAlterVol (num a, decl_of b))
     | 'd' -> SDDL (DDropFn (num (rest s 2)))
     | _ -> raise (Bad ("fn ddl " ^ s)))
  | 'H' -> let (a, b) = split2 (rest s 1) in SDDL (DHolder (holder_of a, expr_of b))
  | 'O' -> SDDL DOther
  | 'X' ->
    (match s.[1] with
     | 's' -> SMigStart | 'p' -> SMigPopulate | 'd' -> SMigDescribe | 'c' -> SMigCommit | 'a' -> SMigAbort
     | 'm' ->
       let inner = String.sub s 3 (String.length s - 4) in
       let parts = List.filter (fun x -> x <> "") (String.split_on_char '+' inner) in
       SCreateMigration (List.map (fun p -> if p = "o" then MOther else MQuery (expr_of (rest p 1))) parts)
     | _ -> raise (Bad ("mig " ^ s)))
  | _ -> raise (Bad ("stmt " ^ s))
let ni x = string_of_int (int_of_n x)
let vol_s = function Immutable -> "0" | Stable -> "1" | Volatile -> "2" | Modifying -> "3"
let vols_s tag l =
  tag ^ String.concat "," (List.map (fun (f, v) -> ni f ^ "=" ^ vol_s v)
                             (List.sort (fun (a, _) (b, _) -> compare (int_of_n a) (int_of_n b)) l))
let sres_s = function
  | SRej w -> "R" ^ ni w
  | SOk (_, us, g) -> "K" ^ String.concat "," (List.map (fun (c, n) -> ni c ^ "." ^ ni n) us) ^ "|" ^ ni g
let conds = [Cq_MigrationControlQuery; Cq_tx_action; Cq_DDLQuery; Cscope_SESSION; Cscope_GLOBAL; Cnotebook; Chas_dml]
let branch_ix = function
  | Br_MigrationCommand -> 0 | Br_DDLCommand -> 1 | Br_Transaction -> 2 | Br_SessionCommand_tuple -> 3
  | Br_ConfigOp -> 4 | Br_ExplainStmt -> 5 | Br_AdministerStmt -> 6 | Br_else -> 7
let classes_line () =
  (* for every class (in all_classes order): branch index and the capabilities under each of the 128 valuations *)
  let one k =
    let caps = List.init 128 (fun m ->
        let v c = let rec ix i = function [] -> 0 | x :: t -> if x = c then i else ix (i + 1) t in
          (m lsr (ix 0 conds)) land 1 = 1 in
        ni (dispatch_caps k v)) in
    string_of_int (branch_ix (class_branch k)) ^ ":" ^ String.concat "." caps in
  String.concat " " (List.map one all_classes)
let () =
  try
    while true do
      let line = input_line stdin in
      (try
         if line = "@classes" then print_endline (classes_line ())
         else if line = "@enums" then
           print_endline (String.concat "," (List.map ni cap_flags) ^ " " ^ ni cap_WRITE ^ " " ^ ni cap_ALL)
         else if String.length line > 7 && String.sub line 0 7 = "@group " then
           print_endline (ni (group_caps (List.map num (split_on ',' (rest line 7)))))
         else begin
           match String.split_on_char ';' line with
           | nb :: pre :: reqs ->
             let prelude = List.rev_map fdef_of (split_on ',' pre) in     (* model keeps newest first *)
             let rq = List.map (fun r -> List.map stmt_of (split_on ',' r)) (List.filter (fun x -> x <> "") reqs) in
             (match run_case (nb = "1") prelude rq with
              | BadPrelude w -> print_endline ("P" ^ ni w)
              | Ran (v, rs, w) ->
                print_endline (String.concat ";" ([vols_s "V" v] @ List.map sres_s rs @ [vols_s "W" w])))
           | _ -> raise (Bad "case")
         end
       with Bad m -> print_endline ("!bad " ^ m)
          | Failure m -> print_endline ("!bad " ^ m)
          | Invalid_argument m -> print_endline ("!bad " ^ m))
    done
  with End_of_file -> ()
