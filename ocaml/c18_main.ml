(* C18 driver.  argv[1] = table file written by the code-point sweep:
     set <name> lo-hi lo-hi ...        (name: py_alnum py_dec py_print rs_alpha rs_alnum rs_white)
     low <c> c1,c2,...                 (chr(c).lower() where it differs from [c])
   stdin: one case per line  fn<TAB>hex arg<TAB>hex k<TAB>flags   ->   out<TAB>lex<TAB>pglex *)
let maxcp = 0x110000
let mk () = Bytes.make (maxcp / 8) '\000'
let setbit b i = Bytes.set b (i lsr 3) (Char.chr (Char.code (Bytes.get b (i lsr 3)) lor (1 lsl (i land 7))))
let getbit b i = i >= 0 && i < maxcp && (Char.code (Bytes.get b (i lsr 3)) lsr (i land 7)) land 1 = 1
let tabs : (string, Bytes.t) Hashtbl.t = Hashtbl.create 8
let lows : (int, int list) Hashtbl.t = Hashtbl.create 2048
let load path =
  let ic = open_in path in
  (try while true do
    let line = input_line ic in
    match String.split_on_char ' ' line with
    | "set" :: name :: rs ->
      let b = mk () in
      List.iter (fun r -> if r <> "" then
        match String.split_on_char '-' r with
        | [lo; hi] -> for i = int_of_string lo to int_of_string hi do setbit b i done
        | _ -> failwith "bad range") rs;
      Hashtbl.replace tabs name b
    | ["low"; c; l] ->
      Hashtbl.replace lows (int_of_string c) (List.map int_of_string (split_on ',' l))
    | ["low"; c] -> Hashtbl.replace lows (int_of_string c) []
    | _ -> ()
  done with End_of_file -> ());
  close_in ic
let pred name = let b = Hashtbl.find tabs name in fun (c : n) -> getbit b (int_of_n c)
let hexdec s =
  let n = String.length s / 2 in
  List.init n (fun i -> int_of_string ("0x" ^ String.sub s (2 * i) 2))
let utf8_decode (bs : int list) : int list =
  let rec go acc = function
    | [] -> List.rev acc
    | b :: r when b < 0x80 -> go (b :: acc) r
    | b :: b1 :: r when b < 0xE0 -> go ((((b land 0x1F) lsl 6) lor (b1 land 0x3F)) :: acc) r
    | b :: b1 :: b2 :: r when b < 0xF0 ->
      go ((((b land 0x0F) lsl 12) lor ((b1 land 0x3F) lsl 6) lor (b2 land 0x3F)) :: acc) r
    | b :: b1 :: b2 :: b3 :: r ->
      go ((((b land 0x07) lsl 18) lor ((b1 land 0x3F) lsl 12) lor ((b2 land 0x3F) lsl 6) lor (b3 land 0x3F)) :: acc) r
    | _ -> failwith "bad utf8" in
  go [] bs
let utf8_hex (cps : int list) : string =
  let b = Buffer.create 64 in
  let p x = Buffer.add_string b (Printf.sprintf "%02x" x) in
  List.iter (fun c ->
    if c < 0x80 then p c
    else if c < 0x800 then (p (0xC0 lor (c lsr 6)); p (0x80 lor (c land 0x3F)))
    else if c < 0x10000 then (p (0xE0 lor (c lsr 12)); p (0x80 lor ((c lsr 6) land 0x3F)); p (0x80 lor (c land 0x3F)))
    else (p (0xF0 lor (c lsr 18)); p (0x80 lor ((c lsr 12) land 0x3F)); p (0x80 lor ((c lsr 6) land 0x3F)); p (0x80 lor (c land 0x3F)))) cps;
  Buffer.contents b
let ns l = List.map n_of_int l
let is l = List.map int_of_n l
let shex (l : n list) = utf8_hex (is l)
let bhex (l : n list) = String.concat "" (List.map (fun x -> Printf.sprintf "%02x" (int_of_n x)) l)
let ascii_hex s = String.concat "" (List.map (fun c -> Printf.sprintf "%02x" (Char.code c)) (List.init (String.length s) (String.get s)))
let big_dec (x : n) : string =
  (* schoolbook: repeated doubling on a decimal digit array *)
  let digits = ref [0] in
  let double_add bit =
    let carry = ref bit in
    digits := List.map (fun d -> let v = 2 * d + !carry in carry := v / 10; v mod 10) !digits;
    if !carry > 0 then digits := !digits @ [!carry] in
  let rec bits (p : positive) acc = match p with XH -> 1 :: acc | XO q -> bits q (0 :: acc) | XI q -> bits q (1 :: acc) in
  (match x with N0 -> () | Npos p -> List.iter double_add (bits p []));
  String.concat "" (List.rev_map string_of_int !digits)
let canon_tok t rest =
  let r = string_of_int (List.length rest) in
  match t with
  | TStr v -> "ok:S:" ^ shex v ^ ":" ^ r
  | TBin v -> "ok:B:" ^ bhex v ^ ":" ^ r
  | TIdent v -> "ok:I:" ^ shex v ^ ":" ^ r
  | TKeyword v -> "ok:K:" ^ shex v ^ ":" ^ r
  | TParam v -> "ok:P:" ^ shex v ^ ":" ^ r
  | TInt v -> "ok:N:" ^ ascii_hex (big_dec v) ^ ":" ^ r
let canon_lex = function
  | LexOk (t, rest) -> canon_tok t rest
  | LexErr -> "err"
  | LexUnmodelled -> "unm"
let canon_pgtok = function
  | PSConst v -> "S:" ^ shex v
  | PIdent v -> "I:" ^ shex v
  | PKeyword (v, c) -> "K" ^ string_of_int (int_of_n c) ^ ":" ^ shex v
let canon_pg = function
  | PgOk (t, rest) -> "ok:" ^ canon_pgtok t ^ ":" ^ string_of_int (List.length rest)
  | PgErr -> "err"
  | PgTrunc -> "trunc"
  | PgUnmodelled -> "unm"
let canon_qname s =
  match pg_lex_qname (S (S (S (S (S (S (S (S O)))))))) s with
  | Some (ts, rest) -> "ok:Q:" ^ String.concat "/" (List.map canon_pgtok ts) ^ ":" ^ string_of_int (List.length rest)
  | None -> "err"
let split_parts (l : int list) : int list list =
  let rec go cur acc = function
    | [] -> List.rev (List.rev cur :: acc)
    | 0x1f :: r -> go [] (List.rev cur :: acc) r
    | c :: r -> go (c :: cur) acc r in
  go [] [] l
let () =
  load Sys.argv.(1);
  let u = { py_alnum_hi = pred "py_alnum"; py_dec_hi = pred "py_dec"; py_print_hi = pred "py_print";
            py_low_hi = (fun c -> match Hashtbl.find_opt lows (int_of_n c) with Some l -> ns l | None -> [c]);
            rs_alpha_hi = pred "rs_alpha"; rs_alnum_hi = pred "rs_alnum"; rs_white_hi = pred "rs_white" } in
  try
    while true do
      let line = input_line stdin in
      (match String.split_on_char '\t' line with
       | [fn; a; k; fl] ->
         let raw = hexdec a in
         let fl = int_of_string fl in
         let kk = ns (utf8_decode (hexdec k)) in
         let str () = ns (utf8_decode raw) in
         let ql out = shex out ^ "\t" ^ canon_lex (ql_lex1 u (out @ kk)) ^ "\t-" in
         let pg out = shex out ^ "\t-\t" ^ canon_pg (pg_lex1 (out @ kk)) in
         let res =
           match fn with
           | "E" -> shex (ql_escape_string (str ())) ^ "\t-\t-"
           | "L" -> ql (ql_quote_literal (str ()))
           | "D" -> (match ql_dollar_quote_literal (str ()) with Some o -> ql o | None -> "NONE\t-\t-")
           | "C" -> (match ql_visit_constant u (str ()) with Some o -> ql o | None -> "NONE\t-\t-")
           | "B" -> ql (ql_visit_bytes (ns raw))
           | "I" -> ql (ql_quote_ident u (fl land 1 <> 0) (fl land 2 <> 0) (fl land 4 <> 0) (fl land 8 = 0) (str ()))
           | "P" -> ql (ql_param_to_str u (str ()))
           | "l" -> pg (pg_quote_literal (str ()))
           | "i" -> pg (pg_quote_ident u (fl land 1 <> 0) (fl land 2 <> 0) (str ()))
           | "b" ->
             let out = pg_quote_bytea (ns raw) in
             let third = (match pg_lex1 (out @ kk) with
               | PgOk (PSConst v, rest) ->
                 (match pg_bytea_in v with
                  | Some bs -> "ok:Y:" ^ bhex bs ^ ":" ^ shex rest
                  | None -> "err")
               | r -> canon_pg r) in
             shex out ^ "\t-\t" ^ third
           | "q" ->
             let parts = List.map ns (split_parts (utf8_decode raw)) in
             let out = pg_qname u (fl land 2 <> 0) parts in
             shex out ^ "\t-\t" ^ canon_qname (out @ kk)
           | "X" -> "-\t" ^ canon_lex (ql_lex1 u (str ())) ^ "\t-"
           | "Y" -> "-\t-\t" ^ canon_qname (str ())
           | "y" ->
             (* the PostgreSQL spec applied to a given (real) output followed by k *)
             let t = str () @ kk in
             "-\t-\t" ^ (match fl with
               | 0 -> canon_pg (pg_lex1 t)
               | 1 -> (match pg_lex1 t with
                       | PgOk (PSConst v, rest) ->
                         (match pg_bytea_in v with
                          | Some bs -> "ok:Y:" ^ bhex bs ^ ":" ^ shex rest
                          | None -> "err")
                       | r -> canon_pg r)
               | _ -> canon_qname t)
           | _ -> "-\t-\t-" in
         print_string res
       | _ -> print_string "-\t-\t-");
      print_newline ()
    done
  with End_of_file -> ()
