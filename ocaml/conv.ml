(* Conversions between OCaml ints/strings and the extracted inductive numbers.
   Textually included after `open <Ext>` so it uses that module's constructors. *)
let rec pos_of_int (i : int) : positive =
  if i <= 1 then XH
  else if i land 1 = 0 then XO (pos_of_int (i lsr 1)) else XI (pos_of_int (i lsr 1))
let n_of_int (i : int) : n = if i <= 0 then N0 else Npos (pos_of_int i)
let rec int_of_pos (p : positive) : int =
  match p with XH -> 1 | XO q -> 2 * int_of_pos q | XI q -> 2 * int_of_pos q + 1
let int_of_n (x : n) : int = match x with N0 -> 0 | Npos p -> int_of_pos p
let split_on c s = if s = "" then [] else String.split_on_char c s
let ints_of s = List.map (fun x -> n_of_int (int_of_string x)) (split_on ',' s)
let str_of_ns l = String.concat "," (List.map (fun x -> string_of_int (int_of_n x)) l)
