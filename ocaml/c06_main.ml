(* C06 driver.  One case per line:  <schema> <expr> <db>*   (S-expressions, see
   harness/props/c06_gen.py).  Output:  inference, then one result per db, separated by ' | '
     inference:  OK <card> <mult> [name=card,...]   |   ERR <kind>
     result:     values separated by blanks  |  A (run-time assertion failed)  |  N (db does not conform) *)
type sx = A of String.t | L of sx list

let parse_all (s : String.t) : sx list =
  let n = String.length s in
  let pos = ref 0 in
  let rec skip () = if !pos < n && (s.[!pos] = ' ' || s.[!pos] = '\t') then (incr pos; skip ()) in
  let rec rd () : sx =
    skip ();
    if s.[!pos] = '(' then begin
      incr pos;
      let items = ref [] in
      let rec loop () =
        skip ();
        if s.[!pos] = ')' then incr pos
        else (items := rd () :: !items; loop ()) in
      loop ();
      L (List.rev !items)
    end else begin
      let st = !pos in
      while !pos < n && s.[!pos] <> ' ' && s.[!pos] <> '(' && s.[!pos] <> ')' do incr pos done;
      A (String.sub s st (!pos - st))
    end in
  let out = ref [] in
  let rec top () = skip (); if !pos < n then (out := rd () :: !out; top ()) in
  top ();
  List.rev !out

let z_of_int (i : int) : z = if i = 0 then Z0 else if i > 0 then Zpos (pos_of_int i) else Zneg (pos_of_int (-i))
let int_of_z (x : z) : int = match x with Z0 -> 0 | Zpos p -> int_of_pos p | Zneg p -> - (int_of_pos p)

let ascii_of_char (c : char) : ascii =
  let k = Char.code c in
  let b i = (k lsr i) land 1 = 1 in
  Ascii (b 0, b 1, b 2, b 3, b 4, b 5, b 6, b 7)
let char_of_ascii (a : ascii) : char =
  match a with Ascii (b0, b1, b2, b3, b4, b5, b6, b7) ->
    let v b i = if b then 1 lsl i else 0 in
    Char.chr (v b0 0 + v b1 1 + v b2 2 + v b3 3 + v b4 4 + v b5 5 + v b6 6 + v b7 7)
let cstr_of (s : String.t) : string =
  let r = ref EmptyString in
  for i = String.length s - 1 downto 0 do r := String (ascii_of_char s.[i], !r) done;
  !r
let rec str_of_cstr (s : string) : String.t =
  match s with EmptyString -> "" | String (a, tl) -> String.make 1 (char_of_ascii a) ^ str_of_cstr tl

let atom = function A s -> s | L _ -> failwith "atom expected"
let nat_atom x = n_of_int (int_of_string (atom x))

let value_of (s : String.t) : value =
  if s = "true" then VBool true else if s = "false" then VBool false
  else if s.[0] = '#' then VObj (n_of_int (int_of_string (String.sub s 1 (String.length s - 1))))
  else if s.[0] = 's' then VStr (cstr_of s)
  else VInt (z_of_int (int_of_string s))

let rec show (v : value) : String.t =
  match v with
  | VInt z -> string_of_int (int_of_z z)
  | VStr s -> str_of_cstr s
  | VBool b -> if b then "true" else "false"
  | VObj o -> "#" ^ string_of_int (int_of_n o)
  | VPair (a, b) -> "(" ^ show a ^ " " ^ show b ^ ")"
  | VArr (a, b) -> "[" ^ show a ^ " " ^ show b ^ "]"

let schema_of (x : sx) : schema =
  match x with
  | L (A "S" :: ts) ->
    List.concat_map (function
      | L (A "T" :: tid :: ps) ->
        List.map (function
          | L [A "P"; pid; k; multi; req; excl; tgt] ->
            (nat_atom pid,
             { p_src = nat_atom tid;
               p_kind = (match atom k with "i" -> KInt | "s" -> KStr | _ -> KLink);
               p_multi = (atom multi = "1"); p_req = (atom req = "1"); p_excl = (atom excl = "1");
               p_tgt = nat_atom tgt })
          | _ -> failwith "bad pointer") ps
      | _ -> failwith "bad type") ts
  | _ -> failwith "bad schema"

let db_of (x : sx) : db =
  match x with
  | L (A "D" :: os) ->
    let objs = List.map (function L (A "O" :: tid :: oid :: _) -> (nat_atom tid, nat_atom oid) | _ -> failwith "bad obj") os in
    let vals = List.concat_map (function
      | L (A "O" :: _ :: oid :: ps) ->
        List.map (function L (pid :: vs) -> ((nat_atom oid, nat_atom pid), List.map (fun v -> value_of (atom v)) vs)
                         | _ -> failwith "bad vals") ps
      | _ -> failwith "bad obj") os in
    { d_objs = objs; d_vals = vals }
  | _ -> failwith "bad db"

let ty_of_tag (s : String.t) : ty =
  match s.[0] with
  | 'i' -> TInt | 's' -> TStr | 'b' -> TBool
  | 'o' -> TObj [[n_of_int (int_of_string (String.sub s 1 (String.length s - 1)))]]
  | _ -> TUnknown

let prim1_of = function
  | "not" -> PNot | "len" -> PLen | "tostr" -> PToStr | "count" -> PCount | "sum" -> PSum
  | "min" -> PMin | "max" -> PMax | "any" -> PAny | "all" -> PAll | "enumerate" -> PEnumerate
  | "unpack" -> PUnpack | "asingle" -> PASingle | "aexists" -> PAExists | "adistinct" -> PADistinct
  | s -> failwith ("prim1 " ^ s)
let prim2_of = function
  | "eq" -> PEq | "neq" -> PNeq | "lt" -> PLt | "add" -> PAdd | "mul" -> PMul | "cat" -> PCat
  | "and" -> PAnd | "or" -> POr | "opteq" -> POptEq | "optneq" -> POptNeq | "in" -> PIn | "aget" -> PAGet
  | s -> failwith ("prim2 " ^ s)
let qual_of = function
  | "-" -> QNone | "r" -> QReq | "o" -> QOpt | "s" -> QSingle | "m" -> QMulti
  | "rs" -> QReqSingle | "rm" -> QReqMulti | s -> failwith ("qual " ^ s)
let elname (s : String.t) : n = n_of_int (int_of_string (String.sub s 1 (String.length s - 1)))

let rec expr_of (x : sx) : expr =
  match x with
  | L (A "lit" :: vs) -> ELit (List.map (fun v -> value_of (atom v)) vs)
  | L [A "empty"; k] -> EEmpty (ty_of_tag (atom k))
  | L [A "root"; t] -> ERoot (nat_atom t)
  | L [A "var"; v] -> EVar (nat_atom v)
  | L [A "ptr"; e; p] -> EPtr (expr_of e, nat_atom p)
  | L [A "back"; e; p; t] -> EBack (expr_of e, nat_atom p, nat_atom t)
  | L [A "tup"; a; b] -> ETup (expr_of a, expr_of b)
  | L [A "arr"; a; b] -> EArr (expr_of a, expr_of b)
  | L [A "proj"; e; i] -> EProj (expr_of e, atom i = "1")
  | L [A "exists"; e] -> ECall1 (PExists, expr_of e)
  | L [A "call"; f; a] -> ECall1 (prim1_of (atom f), expr_of a)
  | L [A "call"; f; a; b] -> ECall2 (prim2_of (atom f), expr_of a, expr_of b)
  | L [A "union"; a; b] -> EUnion (expr_of a, expr_of b)
  | L [A "distinct"; e] -> EDistinct (expr_of e)
  | L [A "if"; a; c; b] -> EIf (expr_of a, expr_of c, expr_of b)
  | L [A "coal"; a; b] -> ECoal (expr_of a, expr_of b)
  | L [A "sel"; e] -> ESel (expr_of e)
  | L [A "filter"; v; s; p] -> EFilter (true, nat_atom v, expr_of s, expr_of p)
  | L [A "filterp"; v; s; p] -> EFilter (false, nat_atom v, expr_of s, expr_of p)
  | L [A "limit"; e; k] -> ELimit (expr_of e, nat_atom k)
  | L [A "offset"; e; k] -> EOffset (expr_of e, nat_atom k)
  | L [A "limitx"; e; l] -> ELimitX (expr_of e, expr_of l)
  | L [A "offsetx"; e; l] -> EOffsetX (expr_of e, expr_of l)
  | L [A "for"; v; s; b] -> EFor (nat_atom v, expr_of s, expr_of b)
  | L (A "shape" :: v :: s :: els) ->
    let rec mk = function
      | [] -> SNil
      | L [A "el"; nm; q; e] :: tl -> SCons (elname (atom nm), qual_of (atom q), expr_of e, mk tl)
      | _ -> failwith "bad shape element" in
    EShape (nat_atom v, expr_of s, mk els)
  | _ -> failwith "bad expr"

let card_str = function AT_MOST_ONE -> "AT_MOST_ONE" | ONE -> "ONE" | MANY -> "MANY"
                      | AT_LEAST_ONE -> "AT_LEAST_ONE" | UNKNOWN -> "UNKNOWN"
let mult_str = function M_EMPTY -> "EMPTY" | M_UNIQUE -> "UNIQUE" | M_DUPLICATE -> "DUPLICATE" | M_UNKNOWN -> "UNKNOWN"
let err_str = function IInternal -> "internal" | ISingleton -> "singleton" | IDistinct -> "distinct"
                     | IRequired -> "required" | ISingle -> "single"

let () =
  try
    while true do
      let line = input_line stdin in
      (try
        match parse_all line with
        | s :: e :: dbs ->
          let sch = schema_of s in
          let ex = expr_of e in
          let inf = (match run_infer sch ex with
            | RErr k -> "ERR " ^ err_str k
            | ROk (c, m, els) ->
              "OK " ^ card_str c ^ " " ^ mult_str m ^ " "
              ^ String.concat "," (List.map (fun (nm, c) -> "z" ^ string_of_int (int_of_n nm) ^ "=" ^ card_str c) els)) in
          let tag_str = function TF1 -> "F1" | TF2 -> "F2" | TF3 -> "F3" | TF4 -> "F4" | TF5 -> "F5" | TF6 -> "F6"
                               | TF9 -> "F9" | TFor -> "FOR" | TFX -> "FX" | TCast -> "CAST" | TIll -> "ILL" in
          let tg = List.sort_uniq compare (List.map tag_str (run_tags sch ex)) in
          let inf = inf ^ " ;" ^ String.concat "," tg in
          let rs = List.map (fun dx ->
            let d = db_of dx in
            if not (db_okb sch d) then "N"
            else match eval sch d [] ex with
              | None -> "A"
              | Some vs -> String.concat " " (List.map show vs)) dbs in
          print_string (String.concat " | " (inf :: rs))
        | _ -> print_string "BAD"
      with Failure m -> print_string ("BAD " ^ m));
      print_newline ()
    done
  with End_of_file -> ()
