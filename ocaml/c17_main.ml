(* line: ops separated by ';'
     R w gs sc [db:us:rc:dc,db:us:rc:dc...]          new worker process w from these init args
     C w m db us gs rc dc sc f                       m: c1 c0 nb sq gq   f: n q u0..u5 c r
     T w1,w2,.. db us ps f                           queue of free workers, compile_in_tx
   out: one item per op, separated by " ; "
     R: ok <dump> | initfail -
     C: nw | <res>|<obs>|x<sent mask us rc gs dc sc>|<dump>
     T: nw | <res>|<obs>|m<reuse>|w<k> <dump>
     res: ok:<p> | E<err>      obs: - | C<us>,<gs>,<rc>,<dc>,<sc> | T<sid>,<root>
     dump: B<gs>,<sc>,<last> db:us:rc:dc ... W<gs>,<sc>,<sid.root|-> db:us:rc:dc ...   (dbs sorted) *)
let ni s = n_of_int (int_of_string s)
let si x = string_of_int (int_of_n x)
let fault_of s =
  match s with
  | "n" -> FNone | "q" -> FReqLost | "c" -> FCompiler | "r" -> FReplyLost
  | _ when String.length s = 2 && s.[0] = 'u' -> FUnpickle (ni (String.sub s 1 1))
  | _ -> failwith ("bad fault " ^ s)
let meth_of s =
  match s with
  | "c1" -> MCompile true | "c0" -> MCompile false | "nb" | "sq" | "gq" -> MOther
  | _ -> failwith ("bad meth " ^ s)
let words s = List.filter (fun x -> x <> "") (String.split_on_char ' ' (String.trim s))
let op_of s =
  match words s with
  | "R" :: w :: gs :: sc :: rest ->
    let dbs = match rest with
      | [] -> []
      | d :: _ -> List.map (fun e -> match String.split_on_char ':' e with
          | [db; us; rc; dc] -> (ni db, { p_us = ni us; p_rc = ni rc; p_dc = ni dc })
          | _ -> failwith "bad db") (split_on ',' d) in
    ORestart (ni w, dbs, ni gs, ni sc)
  | ["C"; w; m; db; us; gs; rc; dc; sc; f] ->
    OCompile (ni w, meth_of m, ni db, ni us, ni gs, ni rc, ni dc, ni sc, fault_of f)
  | ["T"; av; db; us; ps; f] -> OTx (ints_of av, ni db, ni us, ni ps, fault_of f)
  | _ -> failwith ("bad op " ^ s)
let err_s = function
  | EReq -> "req" | ESync -> "sync" | EComp -> "comp" | EReply -> "reply"
  | EAssert -> "assert" | EWorker -> "wk"
let res_s = function ROk p -> "ok:" ^ si p | RErr e -> "E" ^ err_s e
let obs_s = function
  | ObsNone -> "-"
  | ObsC (us, gs, rc, dc, sc) -> "C" ^ String.concat "," (List.map si [us; gs; rc; dc; sc])
  | ObsT (sid, root) -> "T" ^ si sid ^ "," ^ si root
let bit = function Some _ -> "1" | None -> "0"
let mask x = bit x.x_us ^ bit x.x_rc ^ bit x.x_gs ^ bit x.x_dc ^ bit x.x_sc
let sortk l = List.sort (fun (a, _) (b, _) -> compare (int_of_n a) (int_of_n b)) l
let dump s w =
  let rec find k = function [] -> None | (k', v) :: t -> if int_of_n k = int_of_n k' then Some v else find k t in
  match find w s.ws with
  | None -> "-"
  | Some (b, r) ->
    let bs = "B" ^ si b.b_gs ^ "," ^ si b.b_sc ^ "," ^ si b.b_last ^
      String.concat "" (List.map (fun (k, p) -> " " ^ String.concat ":" (List.map si [k; p.p_us; p.p_rc; p.p_dc]))
                          (sortk b.b_dbs)) in
    let ls = match r.w_last with None -> "-" | Some (a, c) -> si a ^ "." ^ si c in
    let rs = "W" ^ si r.w_gs ^ "," ^ si r.w_sc ^ "," ^ ls ^
      String.concat "" (List.map (fun (k, d) -> " " ^ String.concat ":" (List.map si [k; d.d_us; d.d_rc; d.d_dc]))
                          (sortk r.w_dbs)) in
    bs ^ " " ^ rs
let item o (ou, s) =
  match o, ou with
  | ORestart (w, _, _, _), OutR true -> "ok " ^ dump s w
  | ORestart (w, _, _, _), OutR false -> "initfail " ^ dump s w
  | _, OutNW -> "nw"
  | OCompile (w, _, _, _, _, _, _, _, _), OutC (x, ob, re) ->
    res_s re ^ "|" ^ obs_s ob ^ "|x" ^ mask x ^ "|" ^ dump s w
  | _, OutT (w, reuse, ob, re) ->
    res_s re ^ "|" ^ obs_s ob ^ "|m" ^ (if reuse then "1" else "0") ^ "|w" ^ si w ^ " " ^ dump s w
  | _ -> "?"
let argv = Array.to_list Sys.argv
let digest = List.mem "--digest" argv
let cleanm = List.mem "--clean" argv
let noretm = List.mem "--noreturn" argv
(* --variant <fx1> <fx2> : older code variants of Model.v (default 1 1 = the pinned code) *)
let rec variant = function
  | "--variant" :: a :: b :: _ -> (a = "1", b = "1")
  | _ :: t -> variant t
  | [] -> (true, true)
let (fx1, fx2) = variant argv
let () =
  try
    while true do
      let line = input_line stdin in
      if String.trim line = "" then print_endline ""
      else begin
        let ops = List.map op_of (List.filter (fun x -> String.trim x <> "") (String.split_on_char ';' line)) in
        if digest then print_endline (str_of_ns (digest0 ops))
        else if cleanm then print_endline (if clean0 ops then "1" else "0")
        else if noretm then print_endline (if noret0 ops then "1" else "0")
        else begin
          let tr = trace fx1 fx2 fal0 cont0 sys0 ops in
          print_endline (String.concat " ; " (List.map2 item ops tr))
        end
      end
    done
  with End_of_file -> ()
