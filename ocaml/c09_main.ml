(* line: <fixF1 0/1> <fixF2 0/1> <sch> <ali> <seed> ; req ; req ...
   req : <body>/<befail 0|1>/<reuse 0|1>/<cali | ->      body: stmt | B:stmt,stmt,...
   stmt: ST CO RB QU DEn REn RTn SAv DDv
   out : H1|H0 (hist_ok) then for every request  <impl reply>|<spec reply>   replies: A<sch>.<ali>  R  B<sch>.<ali> *)
let stmt_of s =
  let num () = n_of_int (int_of_string (String.sub s 2 (String.length s - 2))) in
  match String.sub s 0 2 with
  | "ST" -> SStart | "CO" -> SCommit | "RB" -> SRollback | "QU" -> SQuery
  | "DE" -> SDeclare (num ()) | "RE" -> SRelease (num ()) | "RT" -> SRollbackTo (num ())
  | "SA" -> SSetAlias (num ()) | "DD" -> SDdl (num ())
  | _ -> failwith ("bad stmt " ^ s)
let req_of s =
  match String.split_on_char '/' s with
  | [b; bf; ru; ca] ->
    let body =
      if String.length b >= 2 && String.sub b 0 2 = "B:" then
        BBadScript (List.map stmt_of (split_on ',' (String.sub b 2 (String.length b - 2))))
      else BStmt (stmt_of b) in
    Req (body, bf = "1", ru = "1", (if ca = "-" then None else Some (n_of_int (int_of_string ca))))
  | _ -> failwith ("bad req " ^ s)
let pay (a, b) = string_of_int (int_of_n a) ^ "." ^ string_of_int (int_of_n b)
let rep = function
  | Accepted p -> "A" ^ pay p | Rejected -> "R" | BackendError p -> "B" ^ pay p
let () =
  try
    while true do
      let line = input_line stdin in
      match List.map String.trim (String.split_on_char ';' line) with
      | hd :: reqs ->
        (match List.filter (fun x -> x <> "") (String.split_on_char ' ' hd) with
         | [f1; f2; sch; ali; seed] ->
           let n x = n_of_int (int_of_string x) in
           let rs = List.map req_of (List.filter (fun x -> x <> "") reqs) in
           let out = run (f1 = "1") (f2 = "1") (srv_init (n sch) (n ali) (n seed))
                         (spec_init (n sch) (n ali)) rs in
           let ok = hist_ok (spec_init (n sch) (n ali)) rs in
           (* index (0-based) of the first request that makes hist_ok false *)
           let rec take k l = if k = 0 then [] else (match l with [] -> [] | x :: t -> x :: take (k-1) t) in
           let rec first k = if k > List.length rs then (-1)
             else if not (hist_ok (spec_init (n sch) (n ali)) (take k rs)) then k - 1 else first (k+1) in
           print_endline ((if ok then "H1" else ("H0@" ^ string_of_int (first 1))) ^ " " ^
                          String.concat " " (List.map (fun (a, b) -> rep a ^ "|" ^ rep b) out))
         | _ -> failwith "bad header")
      | [] -> print_endline ""
    done
  with End_of_file -> ()
