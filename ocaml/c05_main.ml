(* C05 model driver.
   line:  events separated by ';', tokens by ' ' (see harness/props/c05.py::enc_event)
   out :  one field per event, separated by ' | ':
            ok <effects,sorted,comma-separated> # <catalog>     accepted
            rej | oos | stuck | pgerr                            (after oos/stuck/pgerr: "-" for the rest)
          effect = CT <tab> | DT <tab> | AC <tab> <col> | DC <tab> <col>
          tab = T:T<n> | P:T<n>.p<m>       col = id | source | target | p<m> | q<m>
          catalog = tab=col,col&tab=col...   (sorted) *)
let ni s = n_of_int (int_of_string s)
let bi s = (s = "1")
let parse_event (s : string) : uev =
  match List.filter (fun x -> x <> "") (String.split_on_char ' ' s) with
  | ["CT"; n; a; bs] -> UCreateType (ni n, bi a, (if bs = "-" then [] else ints_of bs))
  | ["DT"; n] -> UDropType (ni n)
  | ["RT"; n; m] -> URenameType (ni n, ni m)
  | ["SA"; n; b] -> USetAbstract (ni n, bi b)
  | ["AB"; n; b] -> UAddBase (ni n, ni b)
  | ["DB"; n; b] -> UDropBase (ni n, ni b)
  | ["CP"; n; p; l; tg; m; r; c] -> UCreatePtr (ni n, ni p, bi l, ni tg, bi m, bi r, bi c)
  | ["DP"; n; p] -> UDropPtr (ni n, ni p)
  | ["RP"; n; p; p2] -> URenamePtr (ni n, ni p, ni p2)
  | ["SM"; n; p; b] -> USetMulti (ni n, ni p, bi b)
  | ["SR"; n; p; b] -> USetReq (ni n, ni p, bi b)
  | ["SC"; n; p; b; em; tg] -> USetComp (ni n, ni p, bi b, bi em, ni tg)
  | ["CL"; n; p; q; c] -> UCreateLP (ni n, ni p, ni q, bi c)
  | ["DL"; n; p; q] -> UDropLP (ni n, ni p, ni q)
  | ["RL"; n; p; q; q2] -> URenameLP (ni n, ni p, ni q, ni q2)
  | ["SL"; n; p; q; b] -> USetLPComp (ni n, ni p, ni q, bi b)
  | ["ST"; n; p; tg] -> USetType (ni n, ni p, ni tg)
  | _ -> failwith ("bad event: " ^ s)

let nm f us0 us1 i =
  match f us1 i with
  | Some n -> string_of_int (int_of_n n)
  | None -> (match f us0 i with Some n -> string_of_int (int_of_n n) | None -> "?" ^ string_of_int (int_of_n i))
let tab_s us0 us1 x =
  match x with
  | TT t -> "T:T" ^ nm type_name us0 us1 t
  | TP (t, p) -> "P:T" ^ nm type_name us0 us1 t ^ ".p" ^ nm ptr_name us0 us1 p
let col_s us0 us1 k =
  match k with
  | CId -> "id" | CSrc -> "source" | CTgt -> "target"
  | CP p -> "p" ^ nm ptr_name us0 us1 p
  | CL q -> "q" ^ nm lp_name_of us0 us1 q
let eff_s us0 us1 e =
  match e with
  | ECT x -> "CT " ^ tab_s us0 us1 x
  | EDT x -> "DT " ^ tab_s us0 us1 x
  | EAC (x, k) -> "AC " ^ tab_s us0 us1 x ^ " " ^ col_s us0 us1 k
  | EDC (x, k) -> "DC " ^ tab_s us0 us1 x ^ " " ^ col_s us0 us1 k
let cat_s us c =
  let rows = List.map (fun (x, cs) ->
      tab_s us us x ^ "=" ^ String.concat "," (List.sort compare (List.map (col_s us us) cs))) c in
  String.concat "&" (List.sort compare rows)

let summary_mode = Array.length Sys.argv > 1 && Sys.argv.(1) = "sum"
let () =
  try
    while true do
      let line = input_line stdin in
      if summary_mode then begin
        let evs = List.filter (fun x -> String.trim x <> "") (String.split_on_char ';' line) in
        let rows = final_summary (List.map parse_event evs) in
        print_string (String.concat ";" (List.map str_of_ns rows));
        print_newline ()
      end else
      let evs = List.filter (fun x -> String.trim x <> "") (String.split_on_char ';' line) in
      let st = ref s_empty in
      let dead = ref false in
      let outs = List.map (fun es ->
          if !dead then "-" else
          let e = parse_event es in
          match sstep !st e with
          | SOk s' ->
            let effs = List.sort compare (List.map (eff_s (!st).s_u s'.s_u) (step_effects !st e)) in
            st := s';
            "ok " ^ String.concat "," effs ^ " # " ^ cat_s s'.s_u s'.s_c
          | SRejected -> "rej"
          | SOutOfScope -> dead := true; "oos"
          | SStuck -> dead := true; "stuck"
          | SPgError -> dead := true; "pgerr") evs in
      print_string (String.concat " | " outs);
      print_newline ()
    done
  with End_of_file -> ()
