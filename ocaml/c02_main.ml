(* C02 / C10 driver.  One case per line:
     D;<pc>;<olds>;<news>;<sims>;<renames>;<guidance>     delta_objects model  -> ops
     P|<A>|<B>|<m>                                        plan + apply         -> ok eq=1 n=<cmds> | cycle | invalid | err
     K|<A>|<B>|<cmds>                                     check a given command list (partition / order / apply)
     H|<S1>|<S2>|...#<m1>|<m2>...                         chain: migrate [] -> S1 -> ... ; compare with direct
   schema  = name:cls:data:r,r;...      matching = y:x,y:x      cmds = c:x,a:y:x,d:y *)
let sim_of = function 0 -> 0 | 1 -> 30 | 2 -> 60 | 3 -> 61 | 4 -> 80 | 5 -> 95 | _ -> 100
let nn i = n_of_int i
let parse_names s = List.map (fun x -> nn (int_of_string x)) (split_on ',' s)
let parse_pairs s =
  List.map (fun e -> match String.split_on_char ':' e with
    | [a; b] -> (nn (int_of_string a), nn (int_of_string b)) | _ -> failwith "pair") (split_on ',' s)
let parse_dobj f =
  match f with
  | [pc; olds; news; sims; rens; gd] ->
    let ents = List.map (String.split_on_char ':') (split_on ',' sims) in
    let d_sim = List.map (fun a -> match a with
      | x :: y :: s :: _ -> ((nn (int_of_string x), nn (int_of_string y)), nn (sim_of (int_of_string s)))
      | _ -> failwith "sim") ents in
    let d_sub = List.concat (List.map (fun a -> match a with
      | [x; y; _; sub] when sub <> "" ->
        [((nn (int_of_string x), nn (int_of_string y)),
          List.map (fun t -> if t = "n" then None else Some (nn (sim_of (int_of_string t))))
            (String.split_on_char '/' sub))]
      | _ -> []) ents) in
    let guid = if gd = "-" then None else
      (match String.split_on_char '|' gd with
       | [c; a; d] -> Some { banned_c = parse_names c; banned_a = parse_pairs a; banned_d = parse_names d }
       | _ -> failwith "guid") in
    { d_old = parse_names olds; d_new = parse_names news; d_sim = d_sim; d_sub = d_sub;
      d_ren = parse_pairs rens; d_guid = guid;
      d_pc = (match pc with "n" -> PNone | "1" -> POne | _ -> POther) }
  | _ -> failwith "dobj fields"
let show_dop = function
  | DCreate (x, c) -> Printf.sprintf "C%d@%d" (int_of_n x) (int_of_n c)
  | DAlter (y, x, c) -> Printf.sprintf "A%d>%d@%d" (int_of_n y) (int_of_n x) (int_of_n c)
  | DDelete (y, c) -> Printf.sprintf "D%d@%d" (int_of_n y) (int_of_n c)
let parse_schema s =
  List.map (fun e -> match String.split_on_char ':' e with
    | [n; c; d; r] -> (nn (int_of_string n), { o_cls = nn (int_of_string c); o_data = nn (int_of_string d); o_refs = parse_names r })
    | _ -> failwith ("schema entry " ^ e)) (split_on ';' s)
let content b x = match lookup x b with Some o -> o | None -> { o_cls = N0; o_data = N0; o_refs = [] }
let parse_cmds b s =
  List.map (fun e -> match String.split_on_char ':' e with
    | ["c"; x] -> let x = nn (int_of_string x) in Create (x, content b x)
    | ["a"; y; x] -> let x = nn (int_of_string x) in Alter (nn (int_of_string y), x, content b x)
    | ["d"; y] -> Delete (nn (int_of_string y))
    | _ -> failwith ("cmd " ^ e)) (split_on ',' s)
let show_err = function
  | EExists n -> Printf.sprintf "exists %d" (int_of_n n)
  | EMissing n -> Printf.sprintf "missing %d" (int_of_n n)
  | EDangling (n, r) -> Printf.sprintf "dangling %d %d" (int_of_n n) (int_of_n r)
  | EReferenced (y, z) -> Printf.sprintf "referenced %d %d" (int_of_n y) (int_of_n z)
  | EClass n -> Printf.sprintf "class %d" (int_of_n n)
let b01 b = if b then "1" else "0"
let show_schema s =
  String.concat ";" (List.map (fun (n, o) ->
    Printf.sprintf "%d:%d:%d:%s" (int_of_n n) (int_of_n o.o_cls) (int_of_n o.o_data) (str_of_ns o.o_refs))
    (List.sort compare (List.map (fun (n, o) -> (n, o)) s)))
let () =
  try
    while true do
      let line = input_line stdin in
      (try
        if String.length line > 1 && line.[0] = 'D' && line.[1] = ';' then begin
          let f = List.tl (String.split_on_char ';' line) in
          let ops = dobj (parse_dobj f) in
          print_string (if ops = [] then "-" else String.concat " " (List.map show_dop ops))
        end else begin
          match String.split_on_char '|' line with
          | ["P"; a; b; m] ->
            let a = parse_schema a and b = parse_schema b and m = parse_pairs m in
            (match plan m a b with
             | PlanCycle -> print_string "cycle"
             | PlanInvalid -> print_string "invalid"
             | Plan cs ->
               (match apply_all cs a with
                | Inl s -> Printf.printf "ok eq=%s n=%d" (b01 (sch_eqb s b)) (List.length cs)
                | Inr e -> print_string ("err " ^ show_err e)))
          | ["K"; a; b; cs] ->
            let a = parse_schema a and b = parse_schema b in
            let cs = parse_cmds b cs in
            let part = partition_okb a b cs and deps = deps_okb a [] cs in
            let res = (match apply_all cs a with
                | Inl s -> "ok eq=" ^ b01 (sch_eqb s b)
                | Inr e -> "err " ^ show_err e) in
            Printf.printf "wfA=%s wfB=%s part=%s deps=%s apply=%s" (b01 (wfb a)) (b01 (wfb b)) (b01 part) (b01 deps) res
          | _ when String.length line > 1 && line.[0] = 'H' ->
            (match String.split_on_char '#' (String.sub line 2 (String.length line - 2)) with
             | [ss; ms] ->
               let ss = List.map parse_schema (String.split_on_char '|' ss) in
               let ms = List.map parse_pairs (String.split_on_char '|' ms) in
               let rec go cur ss ms acc =
                 match ss, ms with
                 | [], _ -> List.rev acc
                 | s :: st, m :: mt ->
                   (match migrate m cur s with
                    | MigOk r ->
                      let direct = (match migrate [] [] s with MigOk d -> b01 (sch_eqb r d) | _ -> "x") in
                      go r st mt ((Printf.sprintf "ok eq=%s direct=%s" (b01 (sch_eqb r s)) direct) :: acc)
                    | MigErr e -> List.rev (("err " ^ show_err e) :: acc)
                    | MigCycle -> List.rev ("cycle" :: acc)
                    | MigInvalid -> List.rev ("invalid" :: acc))
                 | _ -> List.rev ("nomatching" :: acc) in
               print_string (String.concat " / " (go [] ss ms []))
             | _ -> print_string "bad")
          | _ -> print_string "bad"
        end
      with Failure m -> print_string ("bad " ^ m) | Not_found -> print_string "bad nf");
      print_newline ()
    done
  with End_of_file -> ()
