(* C13 driver.  One case per line:   <argmap> <term>
     argmap ::= -  |  i.c,i.c,...      (physical index . composite flag 0/1), in argmap order
     term   ::= the s-expression documented in harness/impl/c13_impl.py
   Output:  <scope> <params>
     scope  ::= OK *  |  OK c,c,...  |  OK -   (no columns)  |  ERR code a b
     params ::= P1 | P0                          (params_ok)
   A line that does not parse prints  BAD <reason>. *)
type sx = A of string | L of sx list

let tokenize (s : string) : string list =
  let n = String.length s in
  let out = ref [] in
  let i = ref 0 in
  while !i < n do
    let c = s.[!i] in
    if c = ' ' || c = '\t' then incr i
    else if c = '(' || c = ')' then (out := String.make 1 c :: !out; incr i)
    else begin
      let j = ref !i in
      while !j < n && s.[!j] <> ' ' && s.[!j] <> '(' && s.[!j] <> ')' && s.[!j] <> '\t' do incr j done;
      out := String.sub s !i (!j - !i) :: !out;
      i := !j
    end
  done;
  List.rev !out

let parse_sx (toks : string list) : sx =
  let rec one = function
    | [] -> failwith "eof"
    | "(" :: r -> let (items, r') = many r in (L items, r')
    | ")" :: _ -> failwith "unexpected )"
    | t :: r -> (A t, r)
  and many = function
    | [] -> failwith "unclosed ("
    | ")" :: r -> ([], r)
    | l -> let (x, r) = one l in let (xs, r') = many r in (x :: xs, r')
  in
  match one toks with
  | (x, []) -> x
  | _ -> failwith "trailing tokens"

let nm = function A s -> n_of_int (int_of_string s) | _ -> failwith "name expected"
let names = function L l -> List.map nm l | _ -> failwith "name list expected"
let flag = function A "0" -> false | A "1" -> true | _ -> failwith "flag expected"
let colset = function A "*" -> Open | L l -> Cols (List.map nm l) | _ -> failwith "colset expected"

let relref = function
  | L [A "tab"; u; n; cs] -> RTab (flag u, nm n, colset cs)
  | L [A "cte"; n] -> RCte (nm n)
  | _ -> failwith "relref expected"

let jointype = function
  | A "i" -> JInner | A "l" -> JLeft | A "c" -> JCross | A "r" -> JRight | A "f" -> JFull
  | _ -> failwith "join type expected"

let rec atom = function
  | L [A "c"; q; c] -> ACol (nm q, nm c)
  | L [A "sr"; q] -> AStarRef (nm q)
  | L [A "p"; n] -> AParam (nm n)
  | L [A "q"; s] -> ASub (query s)
  | _ -> failwith "atom expected"
and atoms = function
  | L l -> List.fold_right (fun a r -> ACons (atom a, r)) l ANil
  | _ -> failwith "atom list expected"
and target = function
  | L [A "t"; n; e] -> TExpr (nm n, atoms e)
  | L [A "ts"; q] -> TStar (nm q)
  | _ -> failwith "target expected"
and targets = function
  | L l -> List.fold_right (fun t r -> TCons (target t, r)) l TNil
  | _ -> failwith "target list expected"
and sitem = function
  | L [A "b"; c] -> SBare (nm c)
  | L [A "e"; e] -> SExpr (atoms e)
  | _ -> failwith "sort item expected"
and sitems = function
  | L l -> List.fold_right (fun s r -> SCons (sitem s, r)) l SNil
  | _ -> failwith "sort item list expected"
and fitem = function
  | L [A "rel"; r; a; ac] -> FRel (relref r, nm a, names ac)
  | L [A "sub"; lat; s; a; ac] -> FSub (flag lat, query s, nm a, names ac)
  | L [A "fn"; args; a; cs] -> FFunc (atoms args, nm a, colset cs)
  | L [A "join"; jt; l; r; A "-"] -> FJoin (jointype jt, fitem l, fitem r, ANil)
  | L [A "join"; jt; l; r; on] -> FJoin (jointype jt, fitem l, fitem r, atoms on)
  | _ -> failwith "from item expected"
and fitems = function
  | L l -> List.fold_right (fun f r -> FCons (fitem f, r)) l FNil
  | _ -> failwith "from list expected"
and withc = function
  | A "-" -> WNone
  | L (A "w" :: recf :: cs) ->
    WSome (flag recf, List.fold_right (fun c r ->
      match c with
      | L [A "cte"; n; ac; s] -> CCons (nm n, names ac, query s, r)
      | _ -> failwith "cte expected") cs CNil)
  | _ -> failwith "with expected"
and source = function
  | A "-" -> SrcDefault
  | s -> SrcQuery (query s)
and conflict = function
  | A "-" -> CfNone
  | L [A "cn"; i] -> CfNothing (atoms i)
  | L [A "cu"; i; sc; e] -> CfUpdate (atoms i, names sc, atoms e)
  | _ -> failwith "conflict expected"
and query = function
  | L [A "sel"; w; ts; fs; body; grp; srt; lim; lock] ->
    QSelect (withc w, targets ts, fitems fs, atoms body, sitems grp, sitems srt, atoms lim, names lock)
  | L [A "val"; w; cols; es] -> QValues (withc w, names cols, atoms es)
  | L [A "set"; w; l; r; srt; lim] -> QSetOp (withc w, query l, query r, sitems srt, atoms lim)
  | L [A "ins"; w; r; a; cols; src; cf; ret] ->
    QInsert (withc w, relref r, nm a, names cols, source src, conflict cf, targets ret)
  | L [A "upd"; w; r; a; sc; se; fs; wh; ret] ->
    QUpdate (withc w, relref r, nm a, names sc, atoms se, fitems fs, atoms wh, targets ret)
  | L [A "del"; w; r; a; fs; wh; ret] ->
    QDelete (withc w, relref r, nm a, fitems fs, atoms wh, targets ret)
  | _ -> failwith "query expected"

let argmap (s : string) =
  if s = "-" then []
  else List.map (fun e ->
      match String.split_on_char '.' e with
      | [i; c] -> (n_of_int (int_of_string i), c = "1")
      | _ -> failwith "argmap entry") (String.split_on_char ',' s)

let () =
  try
    while true do
      let line = input_line stdin in
      (try
         let sp = String.index line ' ' in
         let am = argmap (String.sub line 0 sp) in
         let q = query (parse_sx (tokenize (String.sub line (sp + 1) (String.length line - sp - 1)))) in
         (match check q with
          | Ok Open -> print_string "OK *"
          | Ok (Cols []) -> print_string "OK -"
          | Ok (Cols l) -> print_string ("OK " ^ str_of_ns l)
          | Err ((code, a), b) ->
            print_string (Printf.sprintf "ERR %d %d %d" (int_of_n code) (int_of_n a) (int_of_n b)));
         print_string (if params_ok am q then " P1" else " P0")
       with
       | Failure m -> print_string ("BAD " ^ m)
       | Not_found -> print_string "BAD no-space"
       | Stack_overflow -> print_string "BAD stack-overflow");
      print_newline ()
    done
  with End_of_file -> ()
