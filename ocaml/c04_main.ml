(* C04 driver.  One case per line:
     MODE#classes|modulecls|specials|shorts[|baseops]#ops
   MODE = F (FlatSchema) | C (ChainedSchema), optionally followed by V (print every state in full).
   Output:  status@hash;status@hash;...|final-state     (V: status@state;...|final-state)
   See harness/props/c04.py for the grammar; harness/impl/c04_impl.py prints the same for the real code. *)
let nz s = n_of_int (int_of_string s)
let zi x = string_of_int (int_of_n x)
let split c s = if s = "" then [] else String.split_on_char c s
let idlist s = List.map nz (split '+' s)

let parse_name s =
  match s.[0] with
  | 'U' -> UName (nz (String.sub s 1 (String.length s - 1)))
  | 'Q' ->
    (match String.split_on_char '.' (String.sub s 1 (String.length s - 1)) with
     | [m; x] -> QName (nz m, nz x)
     | _ -> failwith "bad name")
  | _ -> failwith "bad name"

let parse_val s =
  let rest = String.sub s 1 (String.length s - 1) in
  match s.[0] with
  | 'N' -> VName (parse_name rest)
  | 'R' -> VRefs (idlist rest)
  | 'P' -> VPlain (nz rest)
  | _ -> failwith "bad value"

let parse_optval s = if s = "-" then None else Some (parse_val s)

let parse_fields_opt s =
  List.map (fun kv ->
      match String.index_opt kv '=' with
      | Some p -> (nz (String.sub kv 0 p), parse_optval (String.sub kv (p + 1) (String.length kv - p - 1)))
      | None -> failwith "bad field") (split ',' s)

let parse_fields s =
  List.map (fun (f, v) -> match v with Some x -> (f, x) | None -> failwith "None in data") (parse_fields_opt s)

let parse_op s =
  match String.split_on_char ':' s with
  | [a; i; c; fs] when a.[0] = 'A' -> OAdd ((a.[1] = 'r'), nz i, nz c, parse_fields fs)
  | ["U"; hc; i; fs] -> OUpdate (nz hc, nz i, parse_fields_opt fs)
  | ["S"; hc; i; f; v] -> OSet (nz hc, nz i, nz f, parse_optval v)
  | ["X"; hc; i; f] -> OUnset (nz hc, nz i, nz f)
  | ["D"; hc; i] -> ODelete (nz hc, nz i)
  | ["K"; hc; i] -> ODiscard (nz hc, nz i)
  | ["L"; n] -> ODelist (parse_name n)
  | _ -> failwith ("bad op " ^ s)

let parse_ops s = List.map parse_op (split ';' s)

let parse_class s =
  match String.split_on_char ':' s with
  | [code; fl; nf; ni; refs] ->
    (nz code, { c_qual = (fl.[0] = '1'); c_sn = (fl.[1] = '1'); c_gobj = (fl.[2] = '1');
                c_nf = nz nf; c_name = nz ni; c_refs = idlist refs })
  | _ -> failwith "bad class"

let parse_short s =
  match String.split_on_char '>' s with
  | [a; b] -> (parse_name a, parse_name b)
  | _ -> failwith "bad short"

(* ---- canonical printing ---- *)
let str_name = function UName s -> "U" ^ zi s | QName (m, s) -> "Q" ^ zi m ^ "." ^ zi s
let str_ids l = String.concat "+" (List.map zi l)
let str_val = function VName n -> "N" ^ str_name n | VRefs l -> "R" ^ str_ids l | VPlain p -> "P" ^ zi p
let sorted l = List.sort compare l
let str_idset l = String.concat "+" (sorted (List.map zi l))
let sect tag entries = tag ^ "[" ^ String.concat "~" (sorted entries) ^ "]"

let str_schema (s : schema) =
  sect "D" (List.map (fun (i, d) ->
      zi i ^ "=" ^ String.concat "," (sorted (List.map (fun (f, v) -> zi f ^ ":" ^ str_val v) d))) s.s_data)
  ^ sect "T" (List.map (fun (i, c) -> zi i ^ ">" ^ zi c) s.s_type)
  ^ sect "N" (List.map (fun (n, i) -> str_name n ^ ">" ^ zi i) s.s_name)
  ^ sect "G" (List.map (fun ((c, n), i) -> zi c ^ "," ^ str_name n ^ ">" ^ zi i) s.s_glob)
  ^ sect "H" (List.map (fun ((c, n), l) -> zi c ^ "," ^ str_name n ^ ">{" ^ str_idset l ^ "}") s.s_short)
  ^ sect "R" (List.map (fun (t, m) ->
      zi t ^ ">{" ^ String.concat "&" (sorted (List.map (fun ((c, f), l) ->
          zi c ^ "," ^ zi f ^ ">{" ^ str_idset l ^ "}") m)) ^ "}") s.s_refs)

let str_chained (s : chained) =
  "B" ^ str_schema s.ch_base ^ "^T" ^ str_schema s.ch_top ^ "^G" ^ str_schema s.ch_glob

let str_err = function
  | EExists -> "SchemaError" | EPresent -> "SchemaError" | ENotPresent -> "SchemaError"
  | EUnknownModule -> "UnknownModuleError" | EKey -> "KeyError"
  | EInvalidRef -> "InvalidReferenceError" | EAssert -> "AssertionError"
  | ELookup -> "LookupError" | EAttr -> "AttributeError" | EType -> "TypeError"
  | ENoClass -> "NoClass"

let digest s = String.sub (Digest.to_hex (Digest.string s)) 0 8

let () =
  try
    while true do
      let line = input_line stdin in
      (match String.split_on_char '#' line with
       | [mode; envs; opss] ->
         let verbose = String.length mode > 1 && mode.[1] = 'V' in
         let parts = String.split_on_char '|' envs in
         let nth k = if k < List.length parts then List.nth parts k else "" in
         let e = { e_classes = List.map parse_class (split '/' (nth 0));
                   e_module = nz (nth 1);
                   e_special = idlist (nth 2);
                   e_short = List.map parse_short (split ',' (nth 3)) } in
         let ops = parse_ops opss in
         let show st = if verbose then st else digest st in
         let status = function None -> "ok" | Some x -> str_err x in
         if String.length mode > 1 && mode.[1] = 'R' then begin
           (* raw, order-preserving serialisation: compared with vm_compute inside Coq *)
           let l = if mode.[0] = 'F' then ser_trace e ops else ser_ch_trace e (parse_ops (nth 4)) ops in
           print_string (String.concat "," (List.map zi l))
         end else
         if mode.[0] = 'F' then begin
           let tr = trace e empty ops in
           let final = List.fold_left (fun _ (_, s) -> s) empty tr in
           print_string (String.concat ";" (List.map (fun (x, s) -> status x ^ "@" ^ show (str_schema s)) tr));
           print_string ("|" ^ str_schema final)
         end else begin
           let base = run e empty (parse_ops (nth 4)) in
           let s0 = { ch_base = base; ch_top = empty; ch_glob = empty } in
           let tr = ch_trace e s0 ops in
           let final = List.fold_left (fun _ (_, s) -> s) s0 tr in
           print_string (String.concat ";" (List.map (fun (x, s) -> status x ^ "@" ^ show (str_chained s)) tr));
           print_string ("|" ^ str_chained final)
         end
       | _ -> print_string "BADLINE");
      print_newline ()
    done
  with End_of_file -> ()
