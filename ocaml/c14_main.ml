(* C14 driver.  One case per line (grammar in harness/impl/c14_impl.py), one result line:
     <result> TAB <parse>
   result: ok <hex stream> <hex id> | err <Class> ;  parse: ok <canonical desc> | err | -   *)
let hexdig = "0123456789abcdef"
let bytes_of_hex (s : string) : n list =
  if s = "-" then [] else begin
    let l = Stdlib.ref [] in
    let k = String.length s / 2 in
    for i = k - 1 downto 0 do
      l := n_of_int (int_of_string ("0x" ^ String.sub s (2 * i) 2)) :: !l
    done; !l end
let hex_of_bytes (l : n list) : string =
  let b = Buffer.create 64 in
  List.iter (fun x -> let v = int_of_n x in
              Buffer.add_char b hexdig.[(v lsr 4) land 15]; Buffer.add_char b hexdig.[v land 15]) l;
  Buffer.contents b
let hex_or_dash l = if l = [] then "-" else hex_of_bytes l

let toks : string list Stdlib.ref = Stdlib.ref []
let next () = match !toks with x :: r -> toks := r; x | [] -> failwith "eol"
let flag () = next () = "1"
let num () = int_of_string (next ())
let str () = bytes_of_hex (next ())
let rec times k f = if k <= 0 then [] else let x = f () in x :: times (k - 1) f

let rec p_sc () =
  let i = str () in let name = str () in let ab = flag () in
  let anc = times (num ()) p_sc in
  let labels = times (num ()) str in
  Scalar (i, name, ab, anc, labels)
let rec p_ot () =
  match next () with
  | "R" -> let i = str () in let n = str () in ORegular (i, n)
  | "C" -> let i = str () in let n = str () in
    let un = times (num ()) p_ot in let it = times (num ()) p_ot in OCompound (i, n, un, it)
  | t -> failwith ("bad ot " ^ t)
let card_of_ch = function
  | "o" -> n_of_int 0x6f | "A" -> n_of_int 0x41 | "m" -> n_of_int 0x6d | "M" -> n_of_int 0x4d
  | c -> failwith ("bad card " ^ c)
let rec p_ty () =
  match next () with
  | "s" -> TScalar (p_sc ())
  | "t" -> let named = flag () in let pers = flag () in let name = str () in
    let els = times (num ()) (fun () -> let n = str () in let t = p_ty () in (n, t)) in
    TTuple (named, pers, name, els)
  | "a" -> let pers = flag () in let name = str () in TArray (pers, name, p_ty ())
  | "r" -> let pers = flag () in let name = str () in TRange (pers, name, p_ty ())
  | "m" -> let pers = flag () in let name = str () in TMultiRange (pers, name, p_ty ())
  | "o" -> let ot = p_ot () in let free = flag () in let impl = flag () in
    let ptrs = times (num ()) p_ptr in let lps = times (num ()) p_ptr in
    TShape (ot, free, impl, ptrs, lps)
  | "i" -> let base = str () in
    let els = times (num ()) (fun () -> let n = str () in let c = card_of_ch (next ()) in
                                let t = p_ty () in ((n, c), t)) in
    (* an input shape over a derived free object: material type std::FreeObject *)
    TInput (ORegular ([], base), true, els)
  | t -> failwith ("bad ty " ^ t)
and p_ptr () =
  let name = str () in let link = flag () in let req = flag () in let multi = flag () in
  let t = p_ty () in let src = p_ot () in
  ({ pname = name; plink = link; preq = req; pmulti = multi; psource = src }, t)

let pv_v2 s = match String.split_on_char '.' s with
  | [a; _] -> int_of_string a >= 2 | _ -> failwith "pv"

let err_name = function
  | EInternal -> "InternalServerError" | EAssert -> "AssertionError" | ESchema -> "SchemaError"
  | EStruct -> "error" | EKey -> "KeyError"

(* ---- canonical rendering of a decoded description (same syntax as c14_impl.canon) *)
let cn s = "~" ^ hex_of_bytes s
let cb b = if b then "1" else "0"
let istr x = string_of_int (int_of_n x)
let rec cd (d : desc) : string =
  let lst l = "[" ^ String.concat "," (List.map cd l) ^ "]" in
  let hdr = function
    | None -> "-,-,-"
    | Some ((name, sd), anc) -> cn name ^ "," ^ cb sd ^ "," ^ lst anc in
  match d with
  | DSet (i, s) -> "Set(" ^ hex_of_bytes i ^ "," ^ cd s ^ ")"
  | DObject (i, n, sd) -> "Obj(" ^ hex_of_bytes i ^ "," ^ cn n ^ "," ^ cb sd ^ ")"
  | DCompound (i, n, sd, op, cs) ->
    "Cmp(" ^ hex_of_bytes i ^ "," ^ cn n ^ "," ^ cb sd ^ "," ^ istr op ^ "," ^ lst cs ^ ")"
  | DShape (i, ot, els) ->
    let kv = List.map (fun ((((fl, c), name), t), src) -> (name, (fl, c, t, src))) els in
    let els' = dict_of kv in
    let e (name, (fl, c, t, src)) =
      cn name ^ ":" ^ istr fl ^ ":" ^ istr c ^ ":" ^ cd t ^ ":"
      ^ (match src with None -> "-" | Some s -> cd s) in
    "Shp(" ^ hex_of_bytes i ^ "," ^ (match ot with None -> "-" | Some o -> cd o) ^ ",["
    ^ String.concat "," (List.map e els') ^ "])"
  | DInput (i, els) ->
    let fl = String.concat "," (List.map (fun (((_, _), name), t) -> cn name ^ ":" ^ cd t) els) in
    let kv = List.mapi (fun idx (((f, c), name), _) -> (name, (idx, f, c))) els in
    let e (name, (idx, f, c)) = cn name ^ ":" ^ string_of_int idx ^ ":" ^ istr f ^ ":" ^ istr c in
    "Inp(" ^ hex_of_bytes i ^ ",[" ^ fl ^ "],[" ^ String.concat "," (List.map e (dict_of kv)) ^ "])"
  | DBase i -> "Bas(" ^ hex_of_bytes i ^ ")"
  | DScalar (i, h, fund, anc) ->
    "Sca(" ^ hex_of_bytes i ^ ","
    ^ (match h with None -> "-,-" | Some (n, sd) -> cn n ^ "," ^ cb sd) ^ ","
    ^ (match fund with None -> "-" | Some f -> cd f) ^ ","
    ^ (match anc with None -> "-" | Some l -> lst l) ^ ")"
  | DTuple (i, h, els) -> "Tup(" ^ hex_of_bytes i ^ "," ^ hdr h ^ "," ^ lst els ^ ")"
  | DNamedTuple (i, h, els) ->
    "Ntp(" ^ hex_of_bytes i ^ "," ^ hdr h ^ ",["
    ^ String.concat "," (List.map (fun (n, t) -> cn n ^ ":" ^ cd t) (dict_of els)) ^ "])"
  | DEnum (i, h, labels) ->
    "Enm(" ^ hex_of_bytes i ^ "," ^ hdr h ^ ",[" ^ String.concat "," (List.map cn labels) ^ "])"
  | DArray (i, h, s) -> "Arr(" ^ hex_of_bytes i ^ "," ^ hdr h ^ "," ^ cd s ^ ")"
  | DRange (i, h, s) -> "Rng(" ^ hex_of_bytes i ^ "," ^ hdr h ^ "," ^ cd s ^ ")"
  | DMultiRange (i, h, s) -> "Mrg(" ^ hex_of_bytes i ^ "," ^ hdr h ^ "," ^ cd s ^ ")"

let parse_str c data =
  match parse c data with
  | Some d -> "ok " ^ cd d
  | None -> "err"

let dummy_sc = Scalar ([], [], false, [], [])
let out_res c r =
  match r with
  | Ok (b, i) -> "ok " ^ hex_or_dash b ^ " " ^ hex_of_bytes i ^ "\t" ^ parse_str c b
  | Err e -> "err " ^ err_name e ^ "\t-"

let run_line line =
  toks := String.split_on_char ' ' line;
  match next () with
  | "D" ->
    let v2 = pv_v2 (next ()) in
    let inline = flag () in let follow = flag () in let flt = str () in
    let uu = p_sc () in
    let t = p_ty () in
    let c = { v2 = v2; inline_tn = inline; follow = follow; flt = flt; uuid_sc = uu } in
    out_res c (describe_c c t)
  | "P" ->
    let v2 = pv_v2 (next ()) in
    let ps = times (num ()) (fun () -> let n = str () in let r = flag () in let t = p_ty () in ((n, r), t)) in
    let c = { v2 = v2; inline_tn = false; follow = true; flt = []; uuid_sc = dummy_sc } in
    (match describe_params_c c ps with
     | Ok (b, i) when ps = [] -> "ok " ^ hex_or_dash b ^ " " ^ hex_of_bytes i ^ "\t-"
     | r -> out_res c r)
  | "I" ->
    let v2 = pv_v2 (next ()) in
    let t = p_ty () in
    let c = { v2 = v2; inline_tn = false; follow = true; flt = []; uuid_sc = dummy_sc } in
    out_res c (describe_input_c c t)
  | "S" ->
    (* a sequence of calls on one StateSerializerFactory / in one process:
         M <pv> <base i-term> <call i-term>   factory.make(...)   (prepared context copied)
         K <pv> <i-term>                      make_compilation_config_serializer() (fresh context)
         P <pv> <n> (<name> <req> <ty>)*      describe_params in between
       results joined by " ; " *)
    let n = num () in
    let outs = times n (fun () ->
      match next () with
      | "M" ->
        let v2 = pv_v2 (next ()) in
        let base = p_ty () in let call = p_ty () in
        let c = { v2 = v2; inline_tn = false; follow = true; flt = []; uuid_sc = dummy_sc } in
        out_res c (make_state_c c base call)
      | "K" ->
        let v2 = pv_v2 (next ()) in
        let t = p_ty () in
        let c = { v2 = v2; inline_tn = false; follow = true; flt = []; uuid_sc = dummy_sc } in
        out_res c (describe_input_c c t)
      | "P" ->
        let v2 = pv_v2 (next ()) in
        let ps = times (num ()) (fun () -> let n = str () in let r = flag () in let t = p_ty () in ((n, r), t)) in
        let c = { v2 = v2; inline_tn = false; follow = true; flt = []; uuid_sc = dummy_sc } in
        (match describe_params_c c ps with
         | Ok (b, i) when ps = [] -> "ok " ^ hex_or_dash b ^ " " ^ hex_of_bytes i ^ "\t-"
         | r -> out_res c r)
      | k -> failwith ("bad call kind " ^ k)) in
    let rs = List.map (fun o -> List.nth (String.split_on_char '\t' o) 0) outs in
    let ps = List.map (fun o -> List.nth (String.split_on_char '\t' o) 1) outs in
    String.concat " ; " rs ^ "\t" ^ String.concat " ; " ps
  | "X" ->
    let v2 = pv_v2 (next ()) in
    let data = bytes_of_hex (next ()) in
    let c = { v2 = v2; inline_tn = false; follow = true; flt = []; uuid_sc = dummy_sc } in
    "-\t" ^ parse_str c data
  | k -> failwith ("bad case kind " ^ k)

let () =
  try
    while true do
      let line = input_line stdin in
      if line <> "" then begin
        print_string (run_line line); print_newline ()
      end
    done
  with End_of_file -> ()
