(* C15/C16 driver.  line:  <max>;<ev>;<ev>...   (the concrete trace written by harness/impl/c15_impl.py)
     ev : A t dN | P t dN | R dN c k | CO cid | CF cid n | DO did | DF did | T | G | X | K t
          followed by oracle fields  |recent=dN,..|avgnz=dN,..|cq=dN:q,..|capcrash=1|gcn=dN:k,..
   output: the state digest after every event, TAB separated (same format as the impl side);
           DISABLED when the model says the event is not enabled. *)
let rec z_of_int (i : int) : z = if i = 0 then Z0 else if i > 0 then Zpos (pos_of_int i) else Zneg (pos_of_int (-i))
let int_of_z (x : z) : int = match x with Z0 -> 0 | Zpos p -> int_of_pos p | Zneg p -> - (int_of_pos p)
let rec nat_of_int i = if i <= 0 then O else S (nat_of_int (i - 1))
let dbn s = n_of_int (int_of_string (String.sub s 1 (String.length s - 1)))
let si = string_of_int
let sn x = si (int_of_n x)
let sz x = si (int_of_z x)
let sdb x = "d" ^ sn x
let sb b = if b then "1" else "0"
let parse_oracle fields =
  let recent = ref [] and avgnz = ref [] and cq = ref [] and cap = ref false and gcn = ref [] in
  List.iter (fun f ->
    match String.index_opt f '=' with
    | None -> ()
    | Some k ->
      let key = String.sub f 0 k and v = String.sub f (k + 1) (String.length f - k - 1) in
      let items = split_on ',' v in
      let pair x = match String.split_on_char ':' x with [a; b] -> (a, b) | _ -> failwith "pair" in
      (match key with
       | "recent" -> recent := List.map dbn items
       | "avgnz" -> avgnz := List.map dbn items
       | "cq" -> cq := List.map (fun x -> let (a, b) = pair x in (dbn a, z_of_int (int_of_string b))) items
       | "capcrash" -> cap := true
       | "gcn" -> gcn := List.map (fun x -> let (a, b) = pair x in (dbn a, nat_of_int (int_of_string b))) items
       | _ -> failwith ("oracle key " ^ key))) fields;
  { o_recent = !recent; o_avgnz = !avgnz; o_cq = !cq; o_capcrash = !cap; o_gcn = !gcn }
let parse_event s =
  match String.split_on_char '|' s with
  | [] -> failwith "empty event"
  | hd :: fields ->
    let o = parse_oracle fields in
    let w = List.filter (fun x -> x <> "") (String.split_on_char ' ' hd) in
    let n x = n_of_int (int_of_string x) in
    let e = match w with
      | ["A"; t; d] -> EAcquire (n t, dbn d)
      | ["P"; t; d] -> EPrune (n t, dbn d)
      | ["R"; d; c; k] -> ERelease (dbn d, n c, k = "1")
      | ["CO"; c] -> EConnOk (n c)
      | ["CF"; c; k] -> EConnFail (n c, k = "1")
      | ["DO"; d] -> EDiscOk (n d)
      | ["DF"; d] -> EDiscFail (n d)
      | ["K"; t] -> ECancel (n t)
      | ["T"] -> ETick | ["G"] -> EGc | ["X"] -> ERun
      | _ -> failwith ("bad event " ^ s) in
    (e, o)
let find_live s i = List.find_opt (fun b -> b.b_id = i) s.blocks
let bdb b = fst b.b_id
let kont_label s k = match k with
  | KAcqStart (t, _) -> "As" ^ sn t
  | KAcqWake (t, _, ok) -> "Aw" ^ sn t ^ (if ok then "+" else "-")
  | KConnStart i -> "Cs" ^ (match find_live s i with Some b -> sdb (bdb b) | None -> "~")
  | KConnWake (cid, _, _, _) -> "Cw" ^ sn cid
  | KTransStart (_, c, _) -> "Ts" ^ sn c
  | KDiscStart (_, c, _, _) -> "Ds" ^ sn c
  | KDiscWake (did, _, _, _) -> "Dw" ^ sn did
  | KPruneStart (t, _) -> "Ps" ^ sn t
  | KPruneWake (t, _, _, ok) -> "Pw" ^ sn t ^ (if ok then "+" else "-")
  | KGatherCb _ -> "Gc"
  | KPruneFin t -> "Pf" ^ sn t
  | KAcqDead t -> "Ac" ^ sn t
  | KAcqWakeC (t, _, _) -> "Ac" ^ sn t
let out_label o = match o with
  | OConnect (cid, d) -> "conn" ^ sn cid ^ ":" ^ sdb d
  | ODisconnect (did, c) -> "disc" ^ sn did ^ ":" ^ sn c
  | OAcquired (t, c) -> "acq" ^ sn t ^ ":" ^ sn c
  | OAcqFailed t -> "afail" ^ sn t
  | OAcqCancelled t -> "acanc" ^ sn t
  | OReleaseErr k -> "rerr:" ^ (match int_of_n k with 1 -> "db" | 2 -> "nc" | 3 -> "nu" | _ -> "other")
  | OPruneDone t -> "pdone" ^ sn t
  | OPruneFailed t -> "pfail" ^ sn t
  | OTickCrash -> "crash:tick"
let digest s =
  let cat = String.concat in
  let head = cat "," [sz s.cur; sb s.starving; sb s.tick_armed; sz s.gc_reqs; sz s.gc_timers; sz s.nacq] in
  let blk b =
    cat ":" [sdb (bdb b);
             cat "" (List.map (fun (c, u) -> sn c ^ (if u then "+" else "-")) b.b_conns);
             cat "," (List.map sn b.b_stack);
             cat "," (List.map (fun (t, w) -> sn t ^ (match w with WDone -> "!" | _ -> "")) b.b_waiters);
             cat "," [sz b.b_pending; sz b.b_acq; sz b.b_nwait; sz b.b_quota; sb b.b_supp; sz b.b_fails]] in
  let live i = match find_live s i with Some b -> sdb (bdb b) | None -> "~" in
  cat "|" [head; cat "," (List.map (kont_label s) s.ready); cat "/" (List.map blk s.blocks);
           cat "," (List.map live s.waitlist); cat "," (List.map live s.overq);
           cat "," (List.map out_label s.outs)]
  ^ (if s.err then "|ERR" else "")
let () =
  try
    while true do
      let line = input_line stdin in
      match String.split_on_char ';' line with
      | [] | [""] -> print_endline ""
      | mx :: evs ->
        let s = ref (init (z_of_int (int_of_string mx))) in
        let buf = Buffer.create 4096 in
        (try
           List.iteri (fun k ev ->
             if ev <> "" then begin
               let (e, o) = parse_event ev in
               (match step !s e o with
                | Some s' -> s := s'
                | None -> (if Buffer.length buf > 0 then Buffer.add_char buf '\t'); Buffer.add_string buf "DISABLED"; raise Exit);
               (if Buffer.length buf > 0 then Buffer.add_char buf '\t');
               Buffer.add_string buf (digest !s)
             end) evs
         with Exit -> ());
        print_endline (Buffer.contents buf)
    done
  with End_of_file -> ()
