(* C01 driver.  One case per line:
     pp <term>        -> "<items> | <parse (pp e) as term or FAIL> | <no_fuse 0/1> | <wf 0/1> | <image 0/1>"
     parse <tokens>   -> "<term or FAIL>"
     fuse <tok> <tok> -> "1" if the model says the two tokens may not be adjacent, else "0"
   term / token syntax: see harness/impl/c01_impl.py (enc_term / enc_tokens). *)
let toks_of_line s = List.filter (fun x -> x <> "") (String.split_on_char ' ' s)
let nn s = n_of_int (int_of_string s)
let on s = if s = "-" then None else Some (nn s)
exception Bad of string
let rec rd_type = function
  | "n" :: m :: n :: r -> (TyName (on m, nn n), r)
  | "c" :: m :: n :: k :: r ->
    let rec go i r acc = if i = 0 then (List.rev acc, r) else let (t, r') = rd_type r in go (i - 1) r' (t :: acc) in
    let (subs, r') = go (int_of_string k) r [] in (TyColl (on m, nn n, subs), r')
  | _ -> raise (Bad "type")
let rd_step = function
  | "p" :: bw :: n :: r -> (SPtr (bw = "1", nn n), r)
  | "a" :: n :: r -> (SAt (nn n), r)
  | "i" :: r -> let (t, r') = rd_type r in (SIs t, r')
  | _ -> raise (Bad "step")
let rec rd_n f k r acc = if k = 0 then (List.rev acc, r) else let (x, r') = f r in rd_n f (k - 1) r' (x :: acc)
let numkind = function "i" -> KInt | "f" -> KFloat | "n" -> KBigInt | "d" -> KDecimal | _ -> raise (Bad "numkind")
let rec nat_of_int i = if i <= 0 then O else S (nat_of_int (i - 1))
let rec int_of_nat = function O -> 0 | S n -> 1 + int_of_nat n
let rec rd_expr = function
  | "C" :: k :: nneg :: v :: r ->
    let ck = (match k with "s" -> CStr | "b" -> CBytes | "t" -> CBool | x -> CNum (numkind x)) in
    (EConst (ck, nat_of_int (int_of_string nneg), nn v), r)
  | "P" :: i :: r -> (EParam (nn i), r)
  | "R" :: m :: n :: k :: r -> let (ss, r') = rd_n rd_step (int_of_string k) r [] in (EPathRef (on m, nn n, ss), r')
  | "Q" :: k :: r -> let (ss, r') = rd_n rd_step (int_of_string k) r [] in (EPathPartial ss, r')
  | "X" :: r -> let (e, r1) = rd_expr r in
    (match r1 with k :: r2 -> let (ss, r') = rd_n rd_step (int_of_string k) r2 [] in (EPathExpr (e, ss), r') | _ -> raise (Bad "X"))
  | "U" :: o :: r -> let (e, r') = rd_expr r in
    let op = (match o with "+" -> UPlus | "-" -> UMinus | "N" -> UNot | "E" -> UExists | "D" -> UDistinct | _ -> raise (Bad "unop")) in
    (EUn (op, e), r')
  | "B" :: o :: r -> let (l, r1) = rd_expr r in let (rr, r2) = rd_expr r1 in (EBin (nn o, l, rr), r2)
  | "I" :: neg :: r -> let (l, r1) = rd_expr r in let (t, r2) = rd_type r1 in (EIs (neg = "1", l, t), r2)
  | "F" :: py :: r -> let (c, r1) = rd_expr r in let (a, r2) = rd_expr r1 in let (b, r3) = rd_expr r2 in (EIf (py = "1", c, a, b), r3)
  | "S" :: k :: cnt :: r ->
    let (es, r') = rd_n rd_expr (int_of_string cnt) r [] in
    (ESeq ((match k with "T" -> QTuple | "A" -> QArray | "S" -> QSet | _ -> raise (Bad "seq")), es), r')
  | "N" :: cnt :: r -> let (fs, r') = rd_n rd_field (int_of_string cnt) r [] in (ENamedTuple fs, r')
  | "K" :: m :: f :: ka :: r ->
    let (args, r1) = rd_n rd_expr (int_of_string ka) r [] in
    (match r1 with kk :: r2 -> let (kw, r3) = rd_n rd_field (int_of_string kk) r2 [] in (ECall (on m, nn f, args, kw), r3)
                 | _ -> raise (Bad "K"))
  | "T" :: cm :: r -> let (t, r1) = rd_type r in let (e, r2) = rd_expr r1 in
    (ECast ((match cm with "0" -> CNone | "1" -> COpt | "2" -> CReq | _ -> raise (Bad "cmod")), t, e), r2)
  | "D" :: cnt :: r -> let (e, r1) = rd_expr r in let (ixs, r2) = rd_n rd_ix (int_of_string cnt) r1 [] in (EIndir (e, ixs), r2)
  | "A" :: r -> let (e, r') = rd_expr r in (EDetached e, r')
  | "G" :: m :: n :: r -> (EGlobal (on m, nn n), r)
  | "H" :: r -> let (e, r1) = rd_expr r in
    (match r1 with cnt :: r2 -> let (els, r3) = rd_n rd_el (int_of_string cnt) r2 [] in (EShape (e, els), r3) | _ -> raise (Bad "H"))
  | _ -> raise (Bad "expr")
and rd_field = function n :: r -> let (e, r') = rd_expr r in ((nn n, e), r') | _ -> raise (Bad "field")
and rd_opt = function "_" :: r -> (None, r) | r -> let (e, r') = rd_expr r in (Some e, r')
and rd_ix = function sl :: r -> let (a, r1) = rd_opt r in let (b, r2) = rd_opt r1 in (((sl = "1", a), b), r2) | _ -> raise (Bad "ix")
and rd_el = function n :: r -> let (c, r') = rd_opt r in ((nn n, c), r') | _ -> raise (Bad "el")

let si n = string_of_int (int_of_n n)
let so = function None -> "-" | Some n -> si n
let rec wr_type b = function
  | TyName (m, n) -> Buffer.add_string b (" n " ^ so m ^ " " ^ si n)
  | TyColl (m, n, subs) -> Buffer.add_string b (" c " ^ so m ^ " " ^ si n ^ " " ^ string_of_int (List.length subs)); List.iter (wr_type b) subs
let wr_step b = function
  | SPtr (bw, n) -> Buffer.add_string b (" p " ^ (if bw then "1" else "0") ^ " " ^ si n)
  | SAt n -> Buffer.add_string b (" a " ^ si n)
  | SIs t -> Buffer.add_string b " i"; wr_type b t
let kn = function KInt -> "i" | KFloat -> "f" | KBigInt -> "n" | KDecimal -> "d"
let rec wr b e =
  let add = Buffer.add_string b in
  match e with
  | EConst (k, nneg, v) -> add (" C " ^ (match k with CStr -> "s" | CBytes -> "b" | CBool -> "t" | CNum x -> kn x) ^ " " ^ string_of_int (int_of_nat nneg) ^ " " ^ si v)
  | EParam i -> add (" P " ^ si i)
  | EPathRef (m, n, ss) -> add (" R " ^ so m ^ " " ^ si n ^ " " ^ string_of_int (List.length ss)); List.iter (wr_step b) ss
  | EPathPartial ss -> add (" Q " ^ string_of_int (List.length ss)); List.iter (wr_step b) ss
  | EPathExpr (h, ss) -> add " X"; wr b h; add (" " ^ string_of_int (List.length ss)); List.iter (wr_step b) ss
  | EUn (o, x) -> add (" U " ^ (match o with UPlus -> "+" | UMinus -> "-" | UNot -> "N" | UExists -> "E" | UDistinct -> "D")); wr b x
  | EBin (o, l, r) -> add (" B " ^ si o); wr b l; wr b r
  | EIs (neg, l, t) -> add (" I " ^ (if neg then "1" else "0")); wr b l; wr_type b t
  | EIf (py, c, a, bb) -> add (" F " ^ (if py then "1" else "0")); wr b c; wr b a; wr b bb
  | ESeq (k, es) -> add (" S " ^ (match k with QTuple -> "T" | QArray -> "A" | QSet -> "S") ^ " " ^ string_of_int (List.length es)); List.iter (wr b) es
  | ENamedTuple fs -> add (" N " ^ string_of_int (List.length fs)); List.iter (fun (n, x) -> add (" " ^ si n); wr b x) fs
  | ECall (m, f, args, kw) ->
    add (" K " ^ so m ^ " " ^ si f ^ " " ^ string_of_int (List.length args)); List.iter (wr b) args;
    add (" " ^ string_of_int (List.length kw)); List.iter (fun (n, x) -> add (" " ^ si n); wr b x) kw
  | ECast (cm, t, x) -> add (" T " ^ (match cm with CNone -> "0" | COpt -> "1" | CReq -> "2")); wr_type b t; wr b x
  | EIndir (x, ixs) ->
    add (" D " ^ string_of_int (List.length ixs)); wr b x;
    List.iter (fun ((sl, a), bb) -> add (" " ^ (if sl then "1" else "0"));
                (match a with None -> add " _" | Some y -> wr b y); (match bb with None -> add " _" | Some y -> wr b y)) ixs
  | EDetached x -> add " A"; wr b x
  | EGlobal (m, n) -> add (" G " ^ so m ^ " " ^ si n)
  | EShape (x, els) ->
    add " H"; wr b x; add (" " ^ string_of_int (List.length els));
    List.iter (fun (n, c) -> add (" " ^ si n); (match c with None -> add " _" | Some y -> wr b y)) els
let term_str e = let b = Buffer.create 256 in wr b e; String.trim (Buffer.contents b)
let tok_str = function
  | TId i -> "i" ^ si i | TNum (k, v) -> "n" ^ kn k ^ si v | TStr v -> "s" ^ si v | TBytes v -> "b" ^ si v
  | TParam i -> "p" ^ si i | TSym s -> "y" ^ si s
let rd_tok s =
  let rest k = String.sub s k (String.length s - k) in
  match s.[0] with
  | 'i' -> TId (nn (rest 1)) | 's' -> TStr (nn (rest 1)) | 'b' -> TBytes (nn (rest 1)) | 'p' -> TParam (nn (rest 1))
  | 'y' -> TSym (nn (rest 1))
  | 'n' -> TNum (numkind (String.make 1 s.[1]), nn (rest 2))
  | _ -> raise (Bad "tok")
let () =
  try
    while true do
      let line = input_line stdin in
      (try
         match toks_of_line line with
         | "pp" :: r ->
           let (e, rest) = rd_expr r in
           if rest <> [] then raise (Bad "trailing");
           let items = pp_items e in
           let its = String.concat " " (List.map (function IT t -> tok_str t | ISp -> "_") items) in
           let back = (match parse (pp e) with Some e' -> term_str e' | None -> "FAIL") in
           let b01 x = if x then "1" else "0" in
           print_string (its ^ " | " ^ back ^ " | " ^ b01 (no_fuse items) ^ " | " ^ b01 (wf e) ^ " | " ^ b01 (image e))
         | "fuse" :: a :: b :: [] -> print_string (if fuses (rd_tok a) (rd_tok b) then "1" else "0")
         | "parse" :: r ->
           (match parse (List.map rd_tok r) with Some e -> print_string (term_str e) | None -> print_string "FAIL")
         | _ -> print_string "BAD"
       with Bad m -> print_string ("BAD " ^ m) | Failure m -> print_string ("BAD " ^ m) | Invalid_argument m -> print_string ("BAD " ^ m));
      print_newline ()
    done
  with End_of_file -> ()
