(* line: <allow 0/1>;k:weak|merge-or-'-'|deps|lctl;k:...   -> one result line *)
let parse_node s =
  match String.split_on_char ':' s with
  | [k; rest] ->
    (match String.split_on_char '|' rest with
     | [w; m; d; c] ->
       (n_of_int (int_of_string k),
        { r_weak = ints_of w;
          r_merge = (if m = "-" then None else Some (ints_of m));
          r_deps = ints_of d; r_lctl = ints_of c })
     | _ -> failwith "bad node")
  | _ -> failwith "bad node"
let () =
  try
    while true do
      let line = input_line stdin in
      let parts = String.split_on_char ';' line in
      let allow = (List.hd parts = "1") in
      let nodes = List.map parse_node (List.filter (fun x -> x <> "") (List.tl parts)) in
      (match sort_ex allow nodes with
       | Sorted o -> print_string ("S " ^ str_of_ns o)
       | Cycle c -> print_string ("C " ^ string_of_int (int_of_n c))
       | Unresolved (d, k) -> print_string ("U " ^ string_of_int (int_of_n d) ^ " " ^ string_of_int (int_of_n k))
       | Fuel -> print_string "F");
      print_newline ()
    done
  with End_of_file -> ()
