# pointers inherited by several subtypes, traversed from trigger bodies (added after seed C13/5)
type Thing { n: int64; }
type TLog { n: int64; s: str; }
abstract type TBase {
    required name: str;
    multi items: Thing;
    multi labels: str;
    trigger t_ins after insert for each do (
        insert TLog { n := count(__new__.items), s := <str>count(__new__.labels) }
    );
    trigger t_upd after update for each do (
        insert TLog { n := count(__old__.items) + count(__new__.items), s := __new__.name }
    );
    trigger t_del after delete for each do (
        insert TLog { n := count(__old__.items), s := array_join(array_agg(__old__.labels), ',') }
    );
}
type TA extending TBase;
type TB extending TBase { extra: int64; }
type TC extending TA;
