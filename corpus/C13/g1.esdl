global cur_user_name -> str;
global cur_uid -> uuid;
global lim_n -> int64 { default := 10 };
required global tenant -> str { default := 'main' };
global cur_user := (select User filter .name = global cur_user_name);

scalar type Status extending enum<Open, Closed, Lost>;
scalar type posint extending int64 { constraint min_value(0); }

abstract type Named {
    required name: str { constraint exclusive; }
    index on (.name);
}
abstract type Timed {
    created: datetime { default := datetime_current(); }
}
type Tag extending Named {
    multi link items := .<tags[is Item];
    property n_items := count(.<tags[is Item]);
}
type User extending Named, Timed {
    age: int64;
    score: float64;
    active: bool { default := true; }
    multi friends: User { since: int64; note: str; }
    best: User { strength: int64; }
    multi nicknames: str;
    property age2 := .age * 2;
    property label := .name ++ '#' ++ <str>.age;
    multi link owned := .<owner[is Item];
    link fof := .friends.friends;
}
type Item extending Named {
    required owner: User;
    multi tags: Tag { weight: float64; }
    price: float64;
    qty: posint { default := 1; }
    notes: array<str>;
    meta: tuple<a: int64, b: str>;
    j: json;
    status: Status { default := Status.Open; }
    property total := .price * .qty;
    constraint exclusive on ((.owner, .qty));
}
type SpecialItem extending Item {
    bonus: int64;
    overloaded price: float64 { constraint min_value(0.0); }
}
type Order extending Timed {
    required buyer: User;
    multi items: Item { count: int64; }
    status: Status;
    property total := sum(.items.price * <float64>.items@count);
    trigger log_insert after insert for each do (
        insert Audit { msg := 'order by ' ++ __new__.buyer.name }
    );
}
type Audit {
    required msg: str;
    at: datetime { rewrite insert using (datetime_of_statement()); }
    touched: int64 { rewrite insert, update using (1 + (__subject__.touched ?? 0)); }
}
type Secret {
    required val: str;
    owner: User;
    access policy owner_only allow all using (.owner.name ?= global cur_user_name);
    access policy admin_read allow select using (global tenant = 'admin');
}
type `Sel ect` {
    `order`: str;
    `a very long property name that goes beyond sixty three bytes in length for sure`: int64;
    multi `li nk`: `Sel ect`;
}
function add_one(x: int64) -> int64 using (x + 1);
function user_names() -> set of str using (User.name);
alias ActiveUser := (select User filter .active);
